//! Front doors other than RoocParser: the fluent builder and the staged pipe runner.
use crate::*;
use rooc::pipe::*;
use rooc::{Auto, BuilderConstraint, Expr, ModelBuilder, Var};

/// An operand as a user of the builder holds it: a variable handle, a float or integer literal, or an expression.
/// Every operator overload of the builder (Var OP Var, Var OP f64, i32 OP Var, Expr OP i32, ...) is its own piece of
/// code, so the generator's tree is mapped onto the overload a user would hit with operands of these kinds.
enum Opnd {
    V(Var),
    F(f64),
    I(i32),
    E(Expr),
}
impl Opnd {
    fn ex(self) -> Expr {
        match self {
            Opnd::V(v) => Expr::from(v),
            Opnd::F(x) => Expr::from(x),
            Opnd::I(i) => Expr::from(i as f64),
            Opnd::E(e) => e,
        }
    }
}
macro_rules! arith {
    ($l:expr, $r:expr, $op:tt) => {
        match ($l, $r) {
            (Opnd::V(a), Opnd::V(b)) => a $op b,
            (Opnd::V(a), Opnd::F(b)) => a $op b,
            (Opnd::V(a), Opnd::I(b)) => a $op b,
            (Opnd::V(a), Opnd::E(b)) => a $op b,
            (Opnd::F(a), Opnd::V(b)) => a $op b,
            (Opnd::I(a), Opnd::V(b)) => a $op b,
            (Opnd::E(a), Opnd::V(b)) => a $op b,
            (Opnd::E(a), Opnd::F(b)) => a $op b,
            (Opnd::E(a), Opnd::I(b)) => a $op b,
            (Opnd::F(a), Opnd::E(b)) => a $op b,
            (Opnd::I(a), Opnd::E(b)) => a $op b,
            (Opnd::E(a), Opnd::E(b)) => a $op b,
            (a, b) => a.ex() $op b.ex(), // literal OP literal: no overload of the builder's
        }
    };
}
macro_rules! logic {
    ($l:expr, $r:expr, $op:tt) => {
        match ($l, $r) {
            (Opnd::V(a), Opnd::V(b)) => a $op b,
            (Opnd::V(a), Opnd::E(b)) => a $op b,
            (Opnd::E(a), Opnd::V(b)) => a $op b,
            (a, b) => a.ex() $op b.ex(),
        }
    };
}

fn bopnd(v: &Value, vars: &[Var], lits: &mut usize) -> Opnd {
    let a = v.as_array().unwrap();
    let tag = a[0].as_str().unwrap();
    match tag {
        "num" => {
            let x = fnum(&a[1]);
            *lits += 1;
            // whole literals are written as integers every other time (10 - x, x * 2), as floats otherwise
            if x.fract() == 0.0 && x.abs() < 1e9 && *lits % 2 == 0 {
                Opnd::I(x as i32)
            } else {
                Opnd::F(x)
            }
        }
        "var" => {
            let n = a[1].as_str().unwrap();
            let idx: usize = n[1..].parse().unwrap();
            Opnd::V(vars[idx])
        }
        _ => Opnd::E(bexpr_inner(v, vars, lits)),
    }
}

fn bexpr_inner(v: &Value, vars: &[Var], lits: &mut usize) -> Expr {
    let a = v.as_array().unwrap();
    let tag = a[0].as_str().unwrap();
    let mut o = |i: usize| bopnd(&a[i], vars, lits);
    match tag {
        "num" | "var" => unreachable!("leaves are operands"),
        "neg" => match o(1) {
            Opnd::V(x) => -x,
            x => -x.ex(),
        },
        "not" => match o(1) {
            Opnd::V(x) => !x,
            x => !x.ex(),
        },
        "abs" => match o(1) {
            Opnd::V(x) => rooc::builder::abs(x),
            x => rooc::builder::abs(x.ex()),
        },
        "min" | "max" | "and" | "or" => {
            let items = a[1].as_array().unwrap();
            let list = items.iter().map(|x| bopnd(x, vars, lits).ex()).collect::<Vec<_>>();
            match tag {
                "min" => rooc::builder::min(list),
                "max" => rooc::builder::max(list),
                "and" => rooc::builder::all(list),
                _ => rooc::builder::any(list),
            }
        }
        "xor" => { let (l, r) = (o(1), o(2)); logic!(l, r, ^) }
        "band" => { let (l, r) = (o(1), o(2)); logic!(l, r, &) }
        "bor" => { let (l, r) = (o(1), o(2)); logic!(l, r, |) }
        // the methods exist on Var handles and on expressions: each is its own piece of code
        "implies" => { let (l, r) = (o(1), o(2)); match l { Opnd::V(a) => a.implies(r.ex()), l => l.ex().implies(r.ex()) } }
        "iff" => { let (l, r) = (o(1), o(2)); match l { Opnd::V(a) => a.iff(r.ex()), l => l.ex().iff(r.ex()) } }
        "+" => { let (l, r) = (o(1), o(2)); arith!(l, r, +) }
        "-" => { let (l, r) = (o(1), o(2)); arith!(l, r, -) }
        "*" => { let (l, r) = (o(1), o(2)); arith!(l, r, *) }
        "/" => { let (l, r) = (o(1), o(2)); arith!(l, r, /) }
        t => panic!("builder tag {t}"),
    }
}

fn bexpr(v: &Value, vars: &[Var]) -> Expr {
    // the literal counter starts from the tree's own size, so the same tree always gets the same spelling (replays)
    let mut lits = v.to_string().len();
    let a = v.as_array().unwrap();
    match a[0].as_str().unwrap() {
        "num" | "var" => bopnd(v, vars, &mut lits).ex(),
        _ => bexpr_inner(v, vars, &mut lits),
    }
}

/// job: {"cmd":"builder","model":<spec with variables named v0..vk>,"order":"obj_first"|"obj_last"|"with_all","solve":bool}
pub fn cmd_builder(v: &Value) -> Value {
    let spec = &v["model"];
    let order = v["order"].as_str().unwrap_or("obj_last");
    let mut b = ModelBuilder::new();
    let mut vars = vec![];
    for var in spec["vars"].as_array().unwrap() {
        vars.push(b.add_var(var[0].as_str().unwrap(), vtype_of(&var[1])));
    }
    let cons: Vec<BuilderConstraint> = spec["cons"]
        .as_array()
        .unwrap()
        .iter()
        .map(|c| {
            let name = c
                .get("name")
                .and_then(|n| n.as_str())
                .unwrap_or("")
                .to_string();
            if let Some(a) = c.get("assert") {
                BuilderConstraint::new_logic_assertion(bexpr(a, &vars), name)
            } else {
                BuilderConstraint::new(
                    bexpr(&c["l"], &vars),
                    cmp_of(c["c"].as_str().unwrap()),
                    bexpr(&c["r"], &vars),
                    name,
                )
            }
        })
        .collect();
    let dir = spec["obj"]["dir"].as_str().unwrap();
    let obj = bexpr(&spec["obj"]["e"], &vars);
    let set_obj = |b: ModelBuilder, obj: Expr| match dir {
        "min" => b.minimize(obj),
        "max" => b.maximize(obj),
        _ => b.satisfy(),
    };
    let b = match order {
        "obj_first" => {
            let mut b = set_obj(b, obj.clone());
            for c in cons {
                b = b.with(c);
            }
            b
        }
        "with_all" => set_obj(b.with_all(cons), obj.clone()),
        // a later objective call replaces an earlier one: first a throw-away objective in the other direction
        // (for a satisfy model: a throw-away maximisation), then the real call
        "override" => {
            let junk = if vars.is_empty() { Expr::from(7.0) } else { Expr::from(vars[0]) * 3.0 + 7.0 };
            let b = match dir {
                "min" => b.maximize(junk),
                "max" => b.minimize(junk),
                _ => b.maximize(junk),
            };
            set_obj(b.with_all(cons), obj.clone())
        }
        _ => {
            let mut b = b;
            for c in cons {
                b = b.with(c);
            }
            set_obj(b, obj.clone())
        }
    };
    let mut out = json!({});
    out["model"] = guarded_pub(|| model_json(&b.clone().into_model()));
    out["lin"] = guarded_pub(|| match b.clone().linearize() {
        Ok(l) => json!({"ok": lm_json(&l)}),
        Err(e) => json!({"err": e.to_string()}),
    });
    if let Some(names) = v.get("shadow_prices").and_then(|n| n.as_array()) {
        // the builder's dual-reporting solver: prices are read back through BuilderSolution::shadow_price
        let names: Vec<String> = names.iter().filter_map(|n| n.as_str().map(|s| s.to_string())).collect();
        let b2 = b.clone();
        let vars2 = vars.clone();
        out["clarabel"] = timed(move || match b2.solve_with(rooc::Clarabel) {
            Ok(s) => {
                let prices: Vec<Value> = names.iter().map(|n| json!([n, s.shadow_price(n).map(f)])).collect();
                let vals: Vec<Value> = vars2.iter().map(|h| json!(s.numeric_value(*h).map(f))).collect();
                json!({"ok": true, "value": f(s.value()), "prices": prices, "values": vals})
            }
            Err(rooc::BuilderError::Solver(e)) => solver_err_json(&e),
            Err(rooc::BuilderError::Linearization(e)) => json!({"ok": false, "kind": "Linearization", "msg": e.to_string()}),
        });
    }
    if v.get("solve").and_then(|s| s.as_bool()).unwrap_or(false) {
        let exprs: Vec<Expr> = v
            .get("eval")
            .and_then(|e| e.as_array())
            .map(|a| a.iter().map(|x| bexpr(x, &vars)).collect())
            .unwrap_or_default();
        let (b2, vars2, spec2, obj2) = (b.clone(), vars.clone(), spec.clone(), obj.clone());
        out["solve"] = timed(move || { let (b, vars, spec, obj) = (b2, vars2, &spec2, obj2); match b.clone().solve_with(Auto) {
            Ok(s) => {
                let vals: Vec<Value> = vars
                    .iter()
                    .map(|h| {
                        json!({"var_value": s.var_value(*h).map(|x| f(x.into())),
                            "numeric_value": s.numeric_value(*h).map(f)})
                    })
                    .collect();
                let by_name: Vec<Value> = spec["vars"]
                    .as_array()
                    .unwrap()
                    .iter()
                    .map(|var| {
                        let n = var[0].as_str().unwrap();
                        json!([n, s.solution().value_of(n).map(|x| f(x.into()))])
                    })
                    .collect();
                json!({"ok": true, "value": f(s.value()), "status": format!("{:?}", s.status()),
                    "handles": vals, "by_name": by_name,
                    "obj_eval": f(s.eval(&obj)),
                    "evals": exprs.iter().map(|e| f(s.eval(e))).collect::<Vec<_>>()})
            }
            Err(rooc::BuilderError::Solver(e)) => solver_err_json(&e),
            Err(rooc::BuilderError::Linearization(e)) => {
                json!({"ok": false, "kind": "Linearization", "msg": e.to_string()})
            }
        }});
    }
    out
}

/// job: {"cmd":"macro","k":0|1,"p":[six floats],"ints":[lo,hi],"n":count,"dir":"min"|"max"}
/// Models written with the builder's declarative macros (`vars!`, `constraint!`, `expr!`): every declaration rule of
/// `vars!` (scalar and array form of bool / int / real / real(..) / nonneg / nonneg(..)) and every relation / logic rule of
/// `constraint!`, with the numbers supplied by the job. The caller writes the same model as source text and compares.
pub fn cmd_macro(v: &Value) -> Value {
    use rooc::{constraint, expr, vars};
    let k = v["k"].as_u64().unwrap_or(0);
    let p: Vec<f64> = v["p"].as_array().unwrap().iter().map(fnum).collect();
    let (ilo, ihi) = (v["ints"][0].as_i64().unwrap() as i32, v["ints"][1].as_i64().unwrap() as i32);
    let n = v["n"].as_u64().unwrap_or(2) as usize;
    let dir = v["dir"].as_str().unwrap_or("min").to_string();
    let mut model = ModelBuilder::new();
    let b = if k == 2 {
        // the collection helpers (any / all / sum / min / max) over families of n = 0, 1, 2, 3 variables
        let which = v["which"].as_str().unwrap_or("any").to_string();
        let y = model.add_var("y", rooc::VariableType::Real(0.0, 10.0));
        let bs = model.add_vars("b", n, rooc::VariableType::bool());
        let xs = model.add_vars("x", n, rooc::VariableType::Real(p[0], p[1]));
        let logic = match which.as_str() {
            "any" => rooc::builder::any(bs.iter().copied()),
            "all" => rooc::builder::all(bs.iter().copied()),
            "not_any" => !rooc::builder::any(bs.iter().copied()),
            _ => !rooc::builder::all(bs.iter().copied()),
        };
        let mut cons = vec![
            BuilderConstraint::new_logic_assertion(logic, "lg".to_string()),
            BuilderConstraint::new(Expr::from(y), rooc::Comparison::GreaterOrEqual, rooc::builder::sum(xs.iter().copied()) + p[5], "sm".to_string()),
        ];
        if n >= 1 {
            cons.push(BuilderConstraint::new(Expr::from(y), rooc::Comparison::LessOrEqual, rooc::builder::max(xs.iter().copied()) + p[4], "mx".to_string()));
            cons.push(BuilderConstraint::new(Expr::from(y) + 1.0, rooc::Comparison::GreaterOrEqual, rooc::builder::min(xs.iter().copied()), "mn".to_string()));
        }
        let obj = Expr::from(y) + rooc::builder::sum(bs.iter().copied());
        let m = model.with_all(cons);
        if dir == "max" { m.maximize(obj) } else { m.minimize(obj) }
    } else if k == 0 {
        vars! { model =>
            a: bool;
            b: bool;
            x: int(ilo, ihi);
            y: real(p[0], p[1]);
            z: nonneg(p[2], p[3]);
            w: real;
            u: nonneg;
        };
        let cons = vec![
            constraint!(c1: x + y <= p[4]),
            constraint!(y - z >= p[5]),
            constraint!(c3: w + u == p[4]),
            constraint!(w >= p[5]),
            constraint!(u <= p[4]),
            constraint!(a -> b),
            constraint!(imp: a <-> b),
            constraint!(a | b),
        ];
        let obj = expr!(x + y + z + w + u + a + b);
        let m = model.with_all(cons);
        if dir == "max" { m.maximize(obj) } else { m.minimize(obj) }
    } else {
        vars! { model =>
            t[n]: real;
            u[n]: nonneg;
            s[n]: bool;
            r[n]: int(ilo, ihi);
            q[n]: real(p[0], p[1]);
            o[n]: nonneg(p[2], p[3]);
        };
        let mut cons = vec![];
        for i in 0..n {
            cons.push(constraint!(t[i] >= p[5]));
            cons.push(constraint!(t[i] + u[i] <= p[4]));
            cons.push(constraint!(r[i] + q[i] - o[i] <= p[4]));
            cons.push(constraint!(s[i] + r[i] >= p[5]));
        }
        let mut obj = Expr::from(0.0);
        for i in 0..n {
            obj = obj + t[i] + u[i] + s[i] + r[i] + q[i] + o[i];
        }
        let m = model.with_all(cons);
        if dir == "max" { m.maximize(obj) } else { m.minimize(obj) }
    };
    let mut out = json!({});
    out["lin"] = guarded_pub(|| match b.clone().linearize() {
        Ok(l) => json!({"ok": lm_json(&l)}),
        Err(e) => json!({"err": e.to_string()}),
    });
    out
}

/// job: {"cmd":"pipe","src":text,"solver":"auto"|"milp"|"none"}
pub fn cmd_pipe(v: &Value) -> Value {
    let src = v["src"].as_str().unwrap().to_string();
    let solver = v["solver"].as_str().unwrap_or("auto").to_string();
    let consts = crate::api_consts(v);
    timed(move || {
        let mut pipes: Vec<Box<dyn Pipeable>> = vec![
            Box::new(CompilerPipe::new()),
            Box::new(PreModelPipe::new()),
            Box::new(ModelPipe::new()),
            Box::new(LinearModelPipe::new()),
        ];
        match solver.as_str() {
            "auto" => pipes.push(Box::new(AutoSolverPipe::new())),
            "milp" => pipes.push(Box::new(MILPSolverPipe::new())),
            // the continuous chains: Clarabel behind the RealSolver pipe, and the teaching chain
            // standard form -> tableau -> step-by-step simplex
            "real" => pipes.push(Box::new(RealSolver::new())),
            "steps" => {
                pipes.push(Box::new(StandardLinearModelPipe::new()));
                pipes.push(Box::new(TableauPipe::new()));
                pipes.push(Box::new(StepByStepSimplexPipe::new()));
            }
            _ => {}
        }
        let runner = PipeRunner::new(pipes);
        let fns = IndexMap::new();
        let ctx = PipeContext::new(consts, &fns);
        let (err, results) = match runner.run(PipeableData::String(src), &ctx) {
            Ok(r) => (None, r),
            Err((e, r)) => (Some(e), r),
        };
        let mut out = json!({});
        for d in results {
            match d {
                PipeableData::Model(m) => out["model"] = model_json(&m),
                PipeableData::LinearModel(l) => out["lin"] = json!({"ok": lm_json(&l)}),
                PipeableData::MILPSolution(s) => out["solve"] = sol_json(Ok(s)),
                PipeableData::RealSolution(s) => out["solve"] = sol_json(Ok(s)),
                PipeableData::OptimalTableauWithSteps(t) => {
                    // the value in the user's terms, as the pipe's consumer reads it
                    let sol = t.result().as_lp_solution();
                    out["solve"] = json!({"ok": true, "value": f(sol.value()), "steps": t.steps().len(),
                        "x": sol.assignment().iter().map(|a| json!([a.name, f(a.value), "r"])).collect::<Vec<_>>()});
                }
                _ => {}
            }
        }
        if let Some(e) = err {
            out["err"] = match &e {
                PipeError::SolverError(se) => solver_err_json(se),
                PipeError::LinearizationError(le) => {
                    json!({"ok": false, "kind": "Linearization", "msg": le.to_string()})
                }
                PipeError::StepByStepSimplexError(se, _) => json!({"ok": false, "kind": format!("{:?}", se), "msg": se.to_string()}),
                other => json!({"ok": false, "kind": "Other", "msg": other.to_string()}),
            };
        }
        out
    })
}

pub fn guarded_pub<F: FnOnce() -> Value>(fun: F) -> Value {
    match catch_unwind(AssertUnwindSafe(fun)) {
        Ok(v) => v,
        Err(_) => json!({"panic": true}),
    }
}
