//! rooc-verif-driver: runs REAL rooc entry points on JSON jobs (one per stdin line) and
//! dumps their results as JSON (one per stdout line, same order). No verification logic
//! lives here: every decision is taken by the SMT side in /verif/smt.
//!
//! Floats cross the boundary as strings in Rust's shortest round-trip `{:?}` form
//! ("0.1", "inf", "-inf", "NaN", "-0.0"), which both sides parse exactly.
use indexmap::IndexMap;
use rooc::model_transformer::{Constraint, DomainVariable, Exp, Model, Objective};
use rooc::*;
use serde_json::{json, Value};
use std::io::{BufRead, Write};
use std::panic::{catch_unwind, AssertUnwindSafe};
use std::time::Duration;

mod front;

// ---------------------------------------------------------------- float / enum transport
pub fn f(x: f64) -> Value {
    Value::String(format!("{:?}", x))
}
pub fn fl(v: &[f64]) -> Value {
    Value::Array(v.iter().map(|x| f(*x)).collect())
}
pub fn fnum(v: &Value) -> f64 {
    match v {
        Value::String(s) => s.parse().unwrap_or_else(|_| panic!("bad float {s}")),
        v => v.as_f64().expect("number"),
    }
}
pub fn cmp_of(s: &str) -> Comparison {
    match s {
        "<=" => Comparison::LessOrEqual,
        ">=" => Comparison::GreaterOrEqual,
        "=" => Comparison::Equal,
        "<" => Comparison::Less,
        ">" => Comparison::Greater,
        o => panic!("cmp {o}"),
    }
}
pub fn cmp_str(c: &Comparison) -> &'static str {
    match c {
        Comparison::LessOrEqual => "<=",
        Comparison::GreaterOrEqual => ">=",
        Comparison::Equal => "=",
        Comparison::Less => "<",
        Comparison::Greater => ">",
    }
}
pub fn dir_of(s: &str) -> OptimizationType {
    match s {
        "min" => OptimizationType::Min,
        "max" => OptimizationType::Max,
        _ => OptimizationType::Satisfy,
    }
}
pub fn dir_str(d: &OptimizationType) -> &'static str {
    match d {
        OptimizationType::Min => "min",
        OptimizationType::Max => "max",
        OptimizationType::Satisfy => "solve",
    }
}
pub fn vtype_of(d: &Value) -> VariableType {
    match d["k"].as_str().unwrap() {
        "Boolean" => VariableType::Boolean,
        "Int" => VariableType::IntegerRange(
            d["lo"].as_i64().unwrap() as i32,
            d["hi"].as_i64().unwrap() as i32,
        ),
        "Real" => VariableType::Real(fnum(&d["lo"]), fnum(&d["hi"])),
        "NNReal" => VariableType::NonNegativeReal(fnum(&d["lo"]), fnum(&d["hi"])),
        k => panic!("kind {k}"),
    }
}
pub fn vtype_json(t: &VariableType) -> Value {
    match t {
        VariableType::Boolean => json!({"k": "Boolean"}),
        VariableType::IntegerRange(a, b) => json!({"k": "Int", "lo": a, "hi": b}),
        VariableType::Real(a, b) => json!({"k": "Real", "lo": f(*a), "hi": f(*b)}),
        VariableType::NonNegativeReal(a, b) => json!({"k": "NNReal", "lo": f(*a), "hi": f(*b)}),
    }
}

// ---------------------------------------------------------------- Exp <-> JSON (tagged arrays)
pub fn exp_of(v: &Value) -> Exp {
    let a = v.as_array().unwrap();
    let tag = a[0].as_str().unwrap();
    let b = |i: usize| exp_of(&a[i]).to_box();
    let list = |i: usize| {
        a[i].as_array()
            .unwrap()
            .iter()
            .map(exp_of)
            .collect::<Vec<_>>()
    };
    match tag {
        "num" => Exp::Number(fnum(&a[1])),
        "var" => Exp::Variable(a[1].as_str().unwrap().to_string()),
        "neg" => Exp::UnOp(UnOp::Neg, b(1)),
        "unot" => Exp::UnOp(UnOp::Not, b(1)),
        "abs" => Exp::Abs(b(1)),
        "min" => Exp::Min(list(1)),
        "max" => Exp::Max(list(1)),
        "and" => Exp::And(list(1)),
        "or" => Exp::Or(list(1)),
        "not" => Exp::Not(b(1)),
        "xor" => Exp::Xor(b(1), b(2)),
        "implies" => Exp::Implies(b(1), b(2)),
        "iff" => Exp::Iff(b(1), b(2)),
        "+" => Exp::BinOp(BinOp::Add, b(1), b(2)),
        "-" => Exp::BinOp(BinOp::Sub, b(1), b(2)),
        "*" => Exp::BinOp(BinOp::Mul, b(1), b(2)),
        "/" => Exp::BinOp(BinOp::Div, b(1), b(2)),
        "band" => Exp::BinOp(BinOp::And, b(1), b(2)),
        "bor" => Exp::BinOp(BinOp::Or, b(1), b(2)),
        "bxor" => Exp::BinOp(BinOp::Xor, b(1), b(2)),
        "bimplies" => Exp::BinOp(BinOp::Implies, b(1), b(2)),
        "biff" => Exp::BinOp(BinOp::Iff, b(1), b(2)),
        t => panic!("tag {t}"),
    }
}
pub fn exp_json(e: &Exp) -> Value {
    let l = |v: &Vec<Exp>| Value::Array(v.iter().map(exp_json).collect());
    match e {
        Exp::Number(n) => json!(["num", f(*n)]),
        Exp::Variable(n) => json!(["var", n]),
        Exp::Abs(x) => json!(["abs", exp_json(x)]),
        Exp::Min(v) => json!(["min", l(v)]),
        Exp::Max(v) => json!(["max", l(v)]),
        Exp::And(v) => json!(["and", l(v)]),
        Exp::Or(v) => json!(["or", l(v)]),
        Exp::Not(x) => json!(["not", exp_json(x)]),
        Exp::Xor(a, b) => json!(["xor", exp_json(a), exp_json(b)]),
        Exp::Implies(a, b) => json!(["implies", exp_json(a), exp_json(b)]),
        Exp::Iff(a, b) => json!(["iff", exp_json(a), exp_json(b)]),
        Exp::UnOp(UnOp::Neg, x) => json!(["neg", exp_json(x)]),
        Exp::UnOp(UnOp::Not, x) => json!(["unot", exp_json(x)]),
        Exp::BinOp(op, a, b) => {
            let t = match op {
                BinOp::Add => "+",
                BinOp::Sub => "-",
                BinOp::Mul => "*",
                BinOp::Div => "/",
                BinOp::And => "band",
                BinOp::Or => "bor",
                BinOp::Xor => "bxor",
                BinOp::Implies => "bimplies",
                BinOp::Iff => "biff",
            };
            json!([t, exp_json(a), exp_json(b)])
        }
    }
}

// ---------------------------------------------------------------- Model / LinearModel transport
pub fn model_of(v: &Value) -> Model {
    let mut domain = IndexMap::new();
    for var in v["vars"].as_array().unwrap() {
        let name = var[0].as_str().unwrap();
        let mut dv = DomainVariable::new(vtype_of(&var[1]), InputSpan::default());
        let used = var.get(2).and_then(|u| u.as_bool()).unwrap_or(true);
        if used {
            dv.increment_usage();
        }
        domain.insert(name.to_string(), dv);
    }
    let obj = Objective::new(
        dir_of(v["obj"]["dir"].as_str().unwrap()),
        exp_of(&v["obj"]["e"]),
    );
    let cons = v["cons"]
        .as_array()
        .unwrap()
        .iter()
        .map(|c| {
            let name = c
                .get("name")
                .and_then(|n| n.as_str())
                .unwrap_or("")
                .to_string();
            if let Some(a) = c.get("assert") {
                Constraint::new_logic_assertion(exp_of(a), name)
            } else {
                Constraint::new(
                    exp_of(&c["l"]),
                    cmp_of(c["c"].as_str().unwrap()),
                    exp_of(&c["r"]),
                    name,
                )
            }
        })
        .collect();
    Model::new(obj, cons, domain)
}
pub fn model_json(m: &Model) -> Value {
    let vars: Vec<Value> = m
        .domain()
        .iter()
        .map(|(n, d)| json!([n, vtype_json(d.get_type()), d.is_used()]))
        .collect();
    let cons: Vec<Value> = m
        .constraints()
        .iter()
        .map(|c| {
            if c.is_logic_assertion() {
                json!({"assert": exp_json(c.lhs()), "name": c.name()})
            } else {
                json!({"l": exp_json(c.lhs()), "c": cmp_str(&c.constraint_type()), "r": exp_json(c.rhs()), "name": c.name()})
            }
        })
        .collect();
    json!({"vars": vars, "cons": cons,
        "obj": {"dir": dir_str(&m.objective().objective_type), "e": exp_json(&m.objective().rhs)}})
}
pub fn lm_of(v: &Value) -> LinearModel {
    let mut m = LinearModel::new();
    for var in v["vars"].as_array().unwrap() {
        m.add_variable(var[0].as_str().unwrap(), vtype_of(&var[1]));
    }
    for r in v["rows"].as_array().unwrap() {
        let a: Vec<f64> = r["a"].as_array().unwrap().iter().map(fnum).collect();
        let c = cmp_of(r["c"].as_str().unwrap());
        let b = fnum(&r["b"]);
        match r.get("name").and_then(|n| n.as_str()) {
            Some(n) if !n.is_empty() => m.add_named_constraint(a, c, b, n),
            _ => m.add_constraint(a, c, b),
        };
    }
    let obj: Vec<f64> = v["obj"].as_array().unwrap().iter().map(fnum).collect();
    let dir = dir_of(v["dir"].as_str().unwrap());
    let off = v.get("off").map(fnum).unwrap_or(0.0);
    if let Some(order) = v.get("domain_order").and_then(|o| o.as_array()) {
        // a model whose domain map is ordered differently from its variable columns, as the linearizer
        // produces (columns sorted by name, domain in declaration order): only new_from_parts can build it
        let (_, _, _, cons, vars, dom) = m.into_parts();
        let mut obj = obj;
        obj.resize(vars.len(), 0.0);
        let mut reordered = IndexMap::new();
        for n in order {
            let n = n.as_str().unwrap();
            if let Some(d) = dom.get(n) {
                reordered.insert(n.to_string(), d.clone());
            }
        }
        for (n, d) in dom {
            reordered.entry(n).or_insert(d);
        }
        return LinearModel::new_from_parts(obj, dir, off, cons, vars, reordered);
    }
    if off != 0.0 {
        // only new_from_parts lets a caller set the offset
        let (_, _, _, cons, vars, dom) = m.into_parts();
        let mut obj = obj;
        obj.resize(vars.len(), 0.0);
        return LinearModel::new_from_parts(obj, dir, off, cons, vars, dom);
    }
    m.set_objective(obj, dir);
    m
}
pub fn lm_json(l: &LinearModel) -> Value {
    let vars: Vec<Value> = l
        .variables()
        .iter()
        .map(|n| match l.domain().get(n) {
            Some(d) => json!([n, vtype_json(d.get_type())]),
            None => json!([n, Value::Null]),
        })
        .collect();
    let rows: Vec<Value> = l
        .constraints()
        .iter()
        .map(|c| json!({"a": fl(c.coefficients()), "c": cmp_str(c.constraint_type()), "b": f(c.rhs()), "name": c.name()}))
        .collect();
    let domain_keys: Vec<&String> = l.domain().keys().collect();
    json!({"vars": vars, "rows": rows, "obj": fl(l.objective()), "off": f(l.objective_offset()),
        "dir": dir_str(l.optimization_type()), "domain_keys": domain_keys})
}

fn lin_err_kind(e: &LinearizationError) -> &'static str {
    match e {
        LinearizationError::NonLinearExpression(_) => "NonLinearExpression",
        LinearizationError::DivisionByZero(_) => "DivisionByZero",
        LinearizationError::EmptyAggregation(_) => "EmptyAggregation",
        LinearizationError::VarAlreadyDeclared(_) => "VarAlreadyDeclared",
        LinearizationError::UnimplementedExpression(_) => "UnimplementedExpression",
        LinearizationError::NonBinaryLogicOperand(_) => "NonBinaryLogicOperand",
        LinearizationError::MissingFiniteBounds { .. } => "MissingFiniteBounds",
    }
}
pub fn linearize_json(m: Model, want: &Value) -> Value {
    match Linearizer::linearize(m) {
        Ok(l) => {
            let mut o = json!({"ok": lm_json(&l)});
            extras_lm(&l, want, &mut o);
            o
        }
        Err(e) => json!({"err": e.to_string(), "kind": lin_err_kind(&e)}),
    }
}
fn wants(want: &Value, k: &str) -> bool {
    want.as_array()
        .map(|a| a.iter().any(|x| x.as_str() == Some(k)))
        .unwrap_or(false)
}
fn extras_lm(l: &LinearModel, want: &Value, o: &mut Value) {
    if wants(want, "lin_text") {
        o["lin_text"] = json!(l.to_string());
    }
    if wants(want, "lp") {
        o["lp"] = json!(l.to_lp_format());
    }
}

// ---------------------------------------------------------------- solver results
pub fn solver_err_json(e: &SolverError) -> Value {
    let kind = match e {
        SolverError::InvalidDomain { .. } => "InvalidDomain",
        SolverError::TooLarge { .. } => "TooLarge",
        SolverError::DidNotSolve => "DidNotSolve",
        SolverError::Unbounded => "Unbounded",
        SolverError::Infeasible => "Infeasible",
        SolverError::Other(_) => "Other",
        SolverError::LimitReached => "LimitReached",
        SolverError::UnimplementedOptimizationType { .. } => "UnimplementedOptimizationType",
        SolverError::UnavailableComparison { .. } => "UnavailableComparison",
    };
    json!({"ok": false, "kind": kind, "msg": e.to_string()})
}
pub fn sol_json<T>(r: Result<LpSolution<T>, SolverError>) -> Value
where
    T: Copy
        + Into<f64>
        + serde::Serialize
        + serde::de::DeserializeOwned
        + std::fmt::Display
        + std::fmt::Debug,
{
    match r {
        Ok(s) => {
            let x: Vec<Value> = s
                .assignment()
                .iter()
                .map(|a| json!([a.name, f(a.value.into()), format!("{:?}", a.value)]))
                .collect();
            let cons: Vec<Value> = s.constraints().iter().map(|(k, v)| json!([k, f(*v)])).collect();
            let duals: Vec<Value> = s
                .shadow_prices()
                .iter()
                .map(|(k, v)| json!([k, f(*v)]))
                .collect();
            json!({"ok": true, "value": f(s.value()), "status": format!("{:?}", s.status()),
                "x": x, "rows": cons, "duals": duals})
        }
        Err(e) => solver_err_json(&e),
    }
}
fn guarded<F: FnOnce() -> Value>(fun: F) -> Value {
    match catch_unwind(AssertUnwindSafe(fun)) {
        Ok(v) => v,
        Err(p) => {
            let msg = p
                .downcast_ref::<String>()
                .cloned()
                .or_else(|| p.downcast_ref::<&str>().map(|s| s.to_string()))
                .unwrap_or_default();
            json!({"panic": true, "msg": msg})
        }
    }
}

/// Runs `fun` on its own thread and gives up after `HANG_SECS`: a solver that never returns is
/// reported as {"hang": true} (the stuck thread is abandoned and dies with the process).
pub const HANG_SECS: u64 = 5;
pub fn timed<F: FnOnce() -> Value + Send + 'static>(fun: F) -> Value {
    let (tx, rx) = std::sync::mpsc::channel();
    let h = std::thread::Builder::new().stack_size(64 << 20).spawn(move || {
        let _ = tx.send(guarded(fun));
    });
    if h.is_err() {
        return json!({"spawn_failed": true});
    }
    match rx.recv_timeout(Duration::from_secs(HANG_SECS)) {
        Ok(v) => v,
        Err(_) => {
            HANGS.fetch_add(1, std::sync::atomic::Ordering::SeqCst);
            json!({"hang": true, "after_s": HANG_SECS})
        }
    }
}
pub static HANGS: std::sync::atomic::AtomicUsize = std::sync::atomic::AtomicUsize::new(0);

fn tableau_json(t: &Tableau) -> Value {
    json!({"a": t.a_matrix().iter().map(|r| fl(r)).collect::<Vec<_>>(), "b": fl(t.b_vec()), "c": fl(t.c_vec()),
        "basis": t.in_basis(), "value": f(t.current_value()), "offset": f(t.value_offset()),
        "flip": t.flip_result(), "vars": t.variables()})
}
fn simplex_err(e: &SimplexError) -> String {
    format!("{:?}", e)
}

fn std_json(s: &StandardLinearModel) -> Value {
    let (vars, obj, rows, off, flip) = s.verif_parts();
    json!({"vars": vars, "obj": fl(&obj), "rows": rows.iter().map(|(a, b)| json!({"a": fl(a), "b": f(*b)})).collect::<Vec<_>>(),
        "off": f(off), "flip": flip, "text": s.to_string()})
}

// ---------------------------------------------------------------- commands
fn cmd_compile(v: &Value) -> Value {
    let want = &v["want"];
    let mut out = json!({});
    let model = model_of(&v["model"]);
    if wants(want, "model_text") {
        out["model_text"] = json!(model.to_string());
    }
    if let Some(steps) = v.get("bound_steps").and_then(|s| s.as_array()) {
        let mut b = serde_json::Map::new();
        for s in steps {
            let key = s.to_string();
            let ms = s.as_u64().map(|x| x as usize);
            let r = guarded(|| {
                let d = verif_derived_bounds(&model, ms);
                Value::Array(d.iter().map(|(n, lo, hi)| json!([n, f(*lo), f(*hi)])).collect())
            });
            b.insert(key, r);
        }
        out["bounds"] = Value::Object(b);
    }
    if let Some(exps) = v.get("sub_exps").and_then(|s| s.as_array()) {
        let es: Vec<Exp> = exps.iter().map(exp_of).collect();
        let ms = v.get("sub_steps").and_then(|s| s.as_u64()).map(|x| x as usize);
        out["sub_bounds"] = guarded(|| {
            Value::Array(
                verif_bounds_of(&model, &es, ms)
                    .iter()
                    .map(|(lo, hi)| json!([f(*lo), f(*hi)]))
                    .collect(),
            )
        });
    }
    if let Some(exps) = v.get("sub_exps").and_then(|s| s.as_array()) {
        // what the lowering itself consults: ranges of the same expressions from a real Linearizer context, next to
        // the variable ranges that context publishes
        let es: Vec<Exp> = exps.iter().map(exp_of).collect();
        out["lowering"] = guarded(|| {
            let (published, ranges) = rooc::Linearizer::verif_lowering_ranges(&model, &es);
            json!({"published": published.iter().map(|(n, t)| json!([n, vtype_json(t)])).collect::<Vec<_>>(),
                   "ranges": ranges.iter().map(|(lo, hi)| json!([f(*lo), f(*hi)])).collect::<Vec<_>>()})
        });
    }
    let replay = v.get("replay").cloned().unwrap_or(Value::Null);
    out["lin"] = guarded(|| match Linearizer::linearize(model) {
        Ok(l) => {
            let mut o = json!({"ok": lm_json(&l)});
            extras_lm(&l, want, &mut o);
            replay_lm(&l, &replay, &mut o);
            o
        }
        Err(e) => json!({"err": e.to_string(), "kind": lin_err_kind(&e)}),
    });
    out
}

/// Replay helpers on a REAL compiled linear model:
/// "points": [{name: value}] -> real calc_constraints / calc_objective at each point;
/// "pin": {name: value} -> adds `name = value` rows and asks the real MILP solver.
pub fn replay_lm(l: &LinearModel, replay: &Value, o: &mut Value) {
    if let Some(points) = replay.get("points").and_then(|p| p.as_array()) {
        let r: Vec<Value> = points
            .iter()
            .map(|pt| {
                let vals: Option<Vec<f64>> = l.variables().iter().map(|n| pt.get(n).map(fnum)).collect();
                match vals {
                    Some(vals) => json!({"rows": l.calc_constraints(&vals).iter().map(|(_, x)| f(*x)).collect::<Vec<_>>(),
                        "obj": f(l.calc_objective(&vals))}),
                    None => json!({"missing": true}),
                }
            })
            .collect();
        o["points"] = Value::Array(r);
    }
    if let Some(pin) = replay.get("pin").and_then(|p| p.as_object()) {
        let mut m = l.clone();
        let n = m.variables().len();
        for (name, val) in pin {
            if let Some(i) = m.variables().iter().position(|x| x == name) {
                let mut a = vec![0.0; n];
                a[i] = 1.0;
                m.add_constraint(a, Comparison::Equal, fnum(val));
            }
        }
        o["pin"] = timed(move || sol_json(solve_milp_lp_problem(&m)));
    }
}

/// constants supplied through the API: job field "consts": [[name, number], ...] (whole numbers as integers)
pub fn api_consts(v: &Value) -> Vec<rooc::Constant> {
    v.get("consts")
        .and_then(|c| c.as_array())
        .map(|a| {
            a.iter()
                .map(|kv| {
                    let name = kv[0].as_str().unwrap();
                    let x = fnum(&kv[1]);
                    let prim = if x.fract() == 0.0 && x.abs() < 1e15 {
                        rooc::Primitive::Integer(x as i64)
                    } else {
                        rooc::Primitive::Number(x)
                    };
                    rooc::Constant::from_primitive(name, prim)
                })
                .collect()
        })
        .unwrap_or_default()
}

fn cmd_text(v: &Value) -> Value {
    let src = v["src"].as_str().unwrap().to_string();
    let want = &v["want"];
    let p = RoocParser::new(src);
    let mut out = json!({});
    if wants(want, "format") {
        out["format"] = guarded(|| match p.format() {
            Ok(s) => json!({"ok": s}),
            Err(e) => json!({"err": e.to_string()}),
        });
    }
    if wants(want, "type_check") {
        out["type_check"] = guarded(|| match p.type_check(&api_consts(v), &IndexMap::new()) {
            Ok(_) => json!({"ok": true}),
            Err(e) => json!({"err": e}),
        });
    }
    let r = guarded(|| match p.parse_and_transform(api_consts(v), &IndexMap::new()) {
        Ok(m) => {
            let mut o = json!({"ok": model_json(&m)});
            if wants(want, "model_text") {
                o["model_text"] = json!(m.to_string());
            }
            if !wants(want, "no_lin") {
                o["lin"] = guarded(|| linearize_json(m, want));
            }
            o
        }
        Err(e) => json!({"err": e}),
    });
    out["model"] = r;
    out
}

fn cmd_rewrite(v: &Value) -> Value {
    let e = exp_of(&v["exp"]);
    guarded(|| {
        let s = e.simplify();
        let fl_ = e.clone().flatten();
        let fs = fl_.clone().simplify();
        let ss = s.simplify();
        let ff = fl_.clone().flatten();
        json!({"s": exp_json(&s), "f": exp_json(&fl_), "fs": exp_json(&fs), "ss": exp_json(&ss), "ff": exp_json(&ff),
            "text": e.to_string()})
    })
}

fn milp_opts(o: &Value) -> MilpOptions {
    MilpOptions {
        mip_gap: o.get("gap").filter(|g| !g.is_null()).map(fnum),
        time_limit: o
            .get("limit_ns")
            .filter(|g| !g.is_null())
            .map(|n| Duration::from_nanos(n.as_u64().unwrap())),
    }
}

fn cmd_lm(v: &Value) -> Value {
    let m = match catch_unwind(AssertUnwindSafe(|| lm_of(&v["lm"]))) {
        Ok(m) => m,
        Err(_) => return json!({"build_panic": true}),
    };
    let mut out = json!({"lm": lm_json(&m)});
    if let Some(r) = v.get("replay") {
        replay_lm(&m, r, &mut out);
    }
    for op in v["ops"].as_array().unwrap() {
        let (name, arg) = match op {
            Value::String(s) => (s.as_str(), Value::Null),
            Value::Array(a) => (a[0].as_str().unwrap(), a[1].clone()),
            _ => panic!("op"),
        };
        let key = if arg.is_null() {
            name.to_string()
        } else {
            format!("{}:{}", name, arg)
        };
        let r = match name {
            "std" => guarded(|| match m.clone().into_standard_form() {
                Ok(s) => json!({"ok": std_json(&s)}),
                Err(e) => solver_err_json(&e),
            }),
            "slow" => { let m = m.clone(); timed(move || sol_json(solve_real_lp_problem_slow_simplex(&m, 1000))) }
            "micro" => { let m = m.clone(); timed(move || sol_json(solve_real_lp_problem_micro_lp(&m))) }
            "clarabel" => { let m = m.clone(); timed(move || sol_json(solve_real_lp_problem_clarabel(&m))) }
            "milp" => { let m = m.clone(); timed(move || sol_json(solve_milp_lp_problem(&m))) }
            "auto" => { let m = m.clone(); timed(move || sol_json(auto_solver(&m))) }
            "milp_with" => { let m = m.clone(); let o = milp_opts(&arg); timed(move || sol_json(solve_milp_lp_problem_with(&m, &o))) }
            "microlp_builder" => {
                // the builder's option-carrying solver object, through its Solver trait
                let m = m.clone();
                let o = milp_opts(&arg);
                timed(move || {
                    use rooc::Solver as _;
                    let mut s = rooc::Microlp::new();
                    if let Some(g) = o.mip_gap {
                        s = s.with_mip_gap(g);
                    }
                    if let Some(l) = o.time_limit {
                        s = s.with_time_limit(l);
                    }
                    sol_json(s.solve(&m))
                })
            }
            "lp" => guarded(|| json!(m.to_lp_format())),
            "text" => guarded(|| json!(m.to_string())),
            "eval" => guarded(|| {
                Value::Array(
                    arg.as_array()
                        .unwrap()
                        .iter()
                        .map(|pt| {
                            let vals: Vec<f64> = pt.as_array().unwrap().iter().map(fnum).collect();
                            json!({"rows": m.calc_constraints(&vals).iter().map(|(_, x)| f(*x)).collect::<Vec<_>>(),
                                "obj": f(m.calc_objective(&vals))})
                        })
                        .collect(),
                )
            }),
            "trace" => { let m = m.clone(); let arg = arg.clone(); timed(move || {
                let std = match m.clone().into_standard_form() {
                    Ok(s) => s,
                    Err(e) => return json!({"std_err": e.to_string()}),
                };
                let std_dump = std_json(&std);
                let mut t = match std.into_tableau() {
                    Ok(t) => t,
                    Err(e) => return json!({"std": std_dump, "tab_err": format!("{:?}", e), "msg": e.to_string()}),
                };
                let limit = arg.as_u64().unwrap_or(200) as usize;
                let mut trace = vec![json!({"t": tableau_json(&t)})];
                let mut end = "limit".to_string();
                for _ in 0..limit {
                    match t.step(&[]) {
                        Ok(StepAction::Pivot { entering, leaving, ratio }) => {
                            trace.push(json!({"enter": entering, "leave": leaving, "ratio": f(ratio), "t": tableau_json(&t)}));
                        }
                        Ok(StepAction::Finished) => {
                            end = "finished".into();
                            break;
                        }
                        Err(e) => {
                            end = simplex_err(&e);
                            break;
                        }
                    }
                }
                json!({"std": std_dump, "end": end, "trace": trace})
            }) },
            "steps" => { let m = m.clone(); let arg = arg.clone(); timed(move || {
                let std = match m.clone().into_standard_form() {
                    Ok(s) => s,
                    Err(e) => return json!({"std_err": e.to_string()}),
                };
                let mut t = match std.into_tableau() {
                    Ok(t) => t,
                    Err(e) => return json!({"tab_err": format!("{:?}", e)}),
                };
                let first = tableau_json(&t);
                match t.solve_step_by_step(arg.as_i64().unwrap_or(1000)) {
                    Ok(r) => json!({"first": first,
                        "n_steps": r.steps().len(),
                        "values": fl(r.result().variables_values()), "optimal": f(r.result().optimal_value()),
                        "final": tableau_json(r.result().tableau())}),
                    Err(e) => json!({"first": first, "err": simplex_err(&e)}),
                }
            }) },
            o => json!({"unknown_op": o}),
        };
        out[key] = r;
    }
    out
}

fn cmd_solve_text(v: &Value) -> Value {
    let src = v["src"].as_str().unwrap().to_string();
    let consts = api_consts(v);
    timed(move || match RoocSolver::try_new(src) {
        Err(e) => json!({"ok": false, "kind": "Parse", "msg": e.to_string()}),
        Ok(s) => match s.solve_with_data_using(auto_solver, consts, &IndexMap::new()) {
            Ok(sol) => sol_json(Ok(sol)),
            Err(RoocSolverError::Solver(e)) => solver_err_json(&e),
            Err(RoocSolverError::Transform(e)) => json!({"ok": false, "kind": "Transform", "msg": e.to_string()}),
            Err(RoocSolverError::Linearization(e)) => json!({"ok": false, "kind": "Linearization", "lin_kind": lin_err_kind(&e), "msg": e.to_string()}),
        },
    })
}

fn main() {
    // panics are data, not noise
    std::panic::set_hook(Box::new(|_| {}));
    let stdin = std::io::stdin();
    let out = std::io::stdout();
    let mut out = std::io::BufWriter::new(out.lock());
    for line in stdin.lock().lines() {
        let line = line.unwrap();
        if line.trim().is_empty() {
            continue;
        }
        let v: Value = serde_json::from_str(&line).unwrap();
        let r = guarded(|| match v["cmd"].as_str().unwrap() {
            "compile" => cmd_compile(&v),
            "text" => cmd_text(&v),
            "rewrite" => cmd_rewrite(&v),
            "lm" => cmd_lm(&v),
            "solve_text" => cmd_solve_text(&v),
            "builder" => front::cmd_builder(&v),
            "macro" => front::cmd_macro(&v),
            "pipe" => front::cmd_pipe(&v),
            o => json!({"unknown_cmd": o}),
        });
        if HANGS.load(std::sync::atomic::Ordering::SeqCst) > 0 {
            // abandoned threads keep spinning: hand the remaining jobs to a fresh process
            let mut r = r;
            if let Some(o) = r.as_object_mut() {
                o.insert("_restart".to_string(), json!(true));
            }
            writeln!(out, "{}", r).unwrap();
            break;
        }
        writeln!(out, "{}", r).unwrap();
    }
    out.flush().unwrap();
    drop(out);
    std::process::exit(0);
}
