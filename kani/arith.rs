// Kani harnesses for the value-level arithmetic kernels (C18, kernel part).
// Included inside `primitives/builtin_primitive_traits_impl.rs` (child module, `use super::*`).
// One harness per (receiver type, operator, operand kind): a symbolic operator did not finish (DESIGN §0).
//
// Asserted for ALL 64-bit operands: the call returns (no panic, no overflow trap in the dev
// profile); an integer result equals the mathematical result computed in i128, otherwise the
// call must have returned an error; division by zero is an error.

fn exact(op: BinOp, a: i128, b: i128) -> i128 {
    match op {
        BinOp::Add => a + b,
        BinOp::Sub => a - b,
        BinOp::Mul => a * b,
        _ => 0,
    }
}

fn check_int_result(r: Result<Primitive, OperatorError>, op: BinOp, a: i128, b: i128) {
    match &r {
        Ok(Primitive::Integer(v)) => assert!(*v as i128 == exact(op, a, b)),
        Ok(Primitive::PositiveInteger(v)) => assert!(*v as i128 == exact(op, a, b)),
        Ok(_) => assert!(false),
        Err(_) => {}
    }
    // `Primitive` has string / array / graph variants: its drop glue costs CBMC minutes per harness
    std::mem::forget(r);
}

/// Boundary operands for multiplication: a fully symbolic 64-bit x 64-bit product compared with an
/// i128 reference does not finish in CBMC (DESIGN: symbolic-by-symbolic multiplication), so one factor
/// is drawn from the values where signed/unsigned conversion and overflow behaviour changes.
fn boundary_u64() -> u64 {
    let k: u8 = kani::any();
    kani::assume(k < 10);
    [0, 1, 2, 3, 0x7fff_ffff, 0x8000_0000, 0xffff_ffff, i64::MAX as u64, (i64::MAX as u64) + 1, u64::MAX][k as usize]
}
fn boundary_i64() -> i64 {
    let k: u8 = kani::any();
    kani::assume(k < 10);
    [0, 1, -1, 2, -2, 0x7fff_ffff, -0x8000_0000, i64::MAX, i64::MIN, i64::MIN + 1][k as usize]
}

macro_rules! mul_harness {
    ($name:ident, $recv:ty, $kind:ident, $operand:ty, $pick:ident) => {
        #[kani::proof]
        fn $name() {
            let a: $recv = kani::any();
            let b: $operand = $pick();
            let r = a.apply_binary_op(BinOp::Mul, &Primitive::$kind(b));
            check_int_result(r, BinOp::Mul, a as i128, b as i128);
        }
    };
}

macro_rules! int_harness {
    ($name:ident, $recv:ty, $op:expr, $kind:ident, $operand:ty) => {
        #[kani::proof]
        fn $name() {
            let a: $recv = kani::any();
            let b: $operand = kani::any();
            let r = a.apply_binary_op($op, &Primitive::$kind(b));
            check_int_result(r, $op, a as i128, b as i128);
        }
    };
}

// i64 receiver
int_harness!(arith_i64_add_int, i64, BinOp::Add, Integer, i64);
int_harness!(arith_i64_sub_int, i64, BinOp::Sub, Integer, i64);
mul_harness!(arith_i64_mul_int, i64, Integer, i64, boundary_i64);
int_harness!(arith_i64_add_pos, i64, BinOp::Add, PositiveInteger, u64);
int_harness!(arith_i64_sub_pos, i64, BinOp::Sub, PositiveInteger, u64);
mul_harness!(arith_i64_mul_pos, i64, PositiveInteger, u64, boundary_u64);
int_harness!(arith_i64_add_bool, i64, BinOp::Add, Boolean, bool);
int_harness!(arith_i64_sub_bool, i64, BinOp::Sub, Boolean, bool);
int_harness!(arith_i64_mul_bool, i64, BinOp::Mul, Boolean, bool);
// u64 receiver
int_harness!(arith_u64_add_pos, u64, BinOp::Add, PositiveInteger, u64);
int_harness!(arith_u64_sub_pos, u64, BinOp::Sub, PositiveInteger, u64);
mul_harness!(arith_u64_mul_pos, u64, PositiveInteger, u64, boundary_u64);
int_harness!(arith_u64_add_int, u64, BinOp::Add, Integer, i64);
int_harness!(arith_u64_sub_int, u64, BinOp::Sub, Integer, i64);
mul_harness!(arith_u64_mul_int, u64, Integer, i64, boundary_i64);
int_harness!(arith_u64_add_bool, u64, BinOp::Add, Boolean, bool);
int_harness!(arith_u64_sub_bool, u64, BinOp::Sub, Boolean, bool);
int_harness!(arith_u64_mul_bool, u64, BinOp::Mul, Boolean, bool);

// division: never panics, zero divisor is an error, otherwise a Number
macro_rules! div_harness {
    ($name:ident, $recv:ty, $kind:ident, $operand:ty, $zero:expr) => {
        #[kani::proof]
        fn $name() {
            let a: $recv = kani::any();
            let b: $operand = kani::any();
            let r = a.apply_binary_op(BinOp::Div, &Primitive::$kind(b));
            match &r {
                Ok(Primitive::Number(_)) => assert!(b != $zero),
                Ok(_) => assert!(false),
                Err(_) => assert!(b == $zero),
            }
            std::mem::forget(r);
        }
    };
}
div_harness!(arith_i64_div_int, i64, Integer, i64, 0);
div_harness!(arith_i64_div_pos, i64, PositiveInteger, u64, 0);
div_harness!(arith_i64_div_bool, i64, Boolean, bool, false);
div_harness!(arith_u64_div_int, u64, Integer, i64, 0);
div_harness!(arith_u64_div_pos, u64, PositiveInteger, u64, 0);
div_harness!(arith_u64_div_bool, u64, Boolean, bool, false);

// float operands (unrestricted doubles): total, and division by +-0.0 is an error
macro_rules! float_operand_harness {
    ($name:ident, $recv:ty, $op:expr) => {
        #[kani::proof]
        fn $name() {
            let a: $recv = kani::any();
            let b: f64 = kani::any();
            let r = a.apply_binary_op($op, &Primitive::Number(b));
            match &r {
                Ok(Primitive::Number(_)) => assert!(!matches!($op, BinOp::Div) || b != 0.0),
                Ok(_) => assert!(false),
                Err(_) => assert!(matches!($op, BinOp::Div) && b == 0.0),
            }
            std::mem::forget(r);
        }
    };
}
float_operand_harness!(arith_i64_add_num, i64, BinOp::Add);
float_operand_harness!(arith_i64_sub_num, i64, BinOp::Sub);
float_operand_harness!(arith_i64_mul_num, i64, BinOp::Mul);
float_operand_harness!(arith_i64_div_num, i64, BinOp::Div);
float_operand_harness!(arith_u64_add_num, u64, BinOp::Add);
float_operand_harness!(arith_u64_sub_num, u64, BinOp::Sub);
float_operand_harness!(arith_u64_mul_num, u64, BinOp::Mul);
float_operand_harness!(arith_u64_div_num, u64, BinOp::Div);

// f64 receiver against every numeric operand kind: total; zero divisor is an error
macro_rules! float_recv_harness {
    ($name:ident, $op:expr, $kind:ident, $operand:ty, $is_zero:expr) => {
        #[kani::proof]
        fn $name() {
            let a: f64 = kani::any();
            let b: $operand = kani::any();
            let r = a.apply_binary_op($op, &Primitive::$kind(b));
            let zero: bool = ($is_zero)(b);
            match &r {
                Ok(Primitive::Number(_)) => assert!(!matches!($op, BinOp::Div) || !zero),
                Ok(_) => assert!(false),
                Err(_) => assert!(matches!($op, BinOp::Div) && zero),
            }
            std::mem::forget(r);
        }
    };
}
float_recv_harness!(arith_f64_add_num, BinOp::Add, Number, f64, |b: f64| b == 0.0);
float_recv_harness!(arith_f64_mul_num, BinOp::Mul, Number, f64, |b: f64| b == 0.0);
float_recv_harness!(arith_f64_div_num, BinOp::Div, Number, f64, |b: f64| b == 0.0);
float_recv_harness!(arith_f64_sub_int, BinOp::Sub, Integer, i64, |b: i64| b == 0);
float_recv_harness!(arith_f64_div_int, BinOp::Div, Integer, i64, |b: i64| b == 0);
float_recv_harness!(arith_f64_mul_pos, BinOp::Mul, PositiveInteger, u64, |b: u64| b == 0);
float_recv_harness!(arith_f64_div_pos, BinOp::Div, PositiveInteger, u64, |b: u64| b == 0);
float_recv_harness!(arith_f64_add_bool, BinOp::Add, Boolean, bool, |b: bool| !b);
float_recv_harness!(arith_f64_div_bool, BinOp::Div, Boolean, bool, |b: bool| !b);

// unary operators
#[kani::proof]
fn arith_i64_neg() {
    let a: i64 = kani::any();
    let r = a.apply_unary_op(UnOp::Neg);
    match &r {
        Ok(Primitive::Integer(v)) => assert!(*v as i128 == -(a as i128)),
        Ok(_) => assert!(false),
        Err(_) => {}
    }
    std::mem::forget(r);
}
#[kani::proof]
fn arith_u64_neg() {
    let a: u64 = kani::any();
    let r = a.apply_unary_op(UnOp::Neg);
    match &r {
        Ok(Primitive::Integer(v)) => assert!(*v as i128 == -(a as i128)),
        Ok(_) => assert!(false),
        Err(_) => {}
    }
    std::mem::forget(r);
}
#[kani::proof]
fn arith_f64_neg_not() {
    let a: f64 = kani::any();
    std::mem::forget(a.apply_unary_op(UnOp::Neg));
    std::mem::forget(a.apply_unary_op(UnOp::Not));
}
#[kani::proof]
fn arith_bool_ops() {
    let a: bool = kani::any();
    let b: bool = kani::any();
    for op in [BinOp::And, BinOp::Or, BinOp::Xor, BinOp::Implies, BinOp::Iff] {
        let r = a.apply_binary_op(op, &Primitive::Boolean(b));
        match &r {
            Ok(Primitive::Boolean(v)) => {
                let v = *v;
                let want = match op {
                    BinOp::And => a && b,
                    BinOp::Or => a || b,
                    BinOp::Xor => a != b,
                    BinOp::Implies => !a || b,
                    _ => a == b,
                };
                assert!(v == want);
            }
            _ => assert!(false),
        }
        std::mem::forget(r);
    }
    let r = a.apply_unary_op(UnOp::Not);
    assert!(matches!(&r, Ok(Primitive::Boolean(v)) if *v == !a));
    std::mem::forget(r);
    let r = a.apply_unary_op(UnOp::Neg);
    assert!(matches!(&r, Ok(Primitive::Number(_))));
    std::mem::forget(r);
}
// logic operators on integers are rejected, never a panic
#[kani::proof]
fn arith_int_logic_rejected() {
    let a: i64 = kani::any();
    let u: u64 = kani::any();
    let b: i64 = kani::any();
    for op in [BinOp::And, BinOp::Or, BinOp::Xor, BinOp::Implies, BinOp::Iff] {
        let r = a.apply_binary_op(op, &Primitive::Integer(b));
        assert!(r.is_err());
        std::mem::forget(r);
        let r = u.apply_binary_op(op, &Primitive::Integer(b));
        assert!(r.is_err());
        std::mem::forget(r);
    }
    let r = a.apply_unary_op(UnOp::Not);
    assert!(r.is_err());
    std::mem::forget(r);
    let r = u.apply_unary_op(UnOp::Not);
    assert!(r.is_err());
    std::mem::forget(r);
}
// vacuity witness: the assertions above are reachable
#[kani::proof]
fn arith_reach_witness() {
    let a: i64 = kani::any();
    let b: i64 = kani::any();
    let r = a.apply_binary_op(BinOp::Add, &Primitive::Integer(b));
    if let Ok(Primitive::Integer(_)) = &r {
        assert!(false); // must be reported FAILED
    }
    std::mem::forget(r);
}

// ---------------------------------------------------------------- value conversions (C18, kernel part)
// `Primitive::{as_integer_cast, as_usize_cast}` turn a value into the integer an index, a range bound or a count is
// made of. For ALL payloads: the call returns, and an Ok result is the mathematical value of the primitive (compared
// in i128 / within the documented tolerance for a Number) - never a wrapped or saturated stand-in.
fn check_conv_i64(r: Result<i64, crate::parser::model_transformer::TransformError>, exact: i128) {
    if let Ok(v) = &r {
        assert!(*v as i128 == exact);
    }
    std::mem::forget(r);
}
fn check_conv_usize(r: Result<usize, crate::parser::model_transformer::TransformError>, exact: i128) {
    if let Ok(v) = &r {
        assert!(*v as i128 == exact);
    }
    std::mem::forget(r);
}
#[kani::proof]
fn arith_conv_posint_as_integer() {
    let n: u64 = kani::any();
    let p = Primitive::PositiveInteger(n);
    check_conv_i64(p.as_integer_cast(), n as i128);
    std::mem::forget(p);
}
#[kani::proof]
fn arith_conv_int_as_usize() {
    let n: i64 = kani::any();
    let p = Primitive::Integer(n);
    check_conv_usize(p.as_usize_cast(), n as i128);
    std::mem::forget(p);
}
#[kani::proof]
fn arith_conv_posint_bool_exact() {
    let n: u64 = kani::any();
    let p = Primitive::PositiveInteger(n);
    check_conv_usize(p.as_usize_cast(), n as i128);
    std::mem::forget(p);
    let b: bool = kani::any();
    let p = Primitive::Boolean(b);
    check_conv_usize(p.as_usize_cast(), b as i128);
    check_conv_i64(p.as_integer_cast(), b as i128);
    std::mem::forget(p);
}
#[kani::proof]
fn arith_conv_number_as_integer() {
    // a Number converts when it is whole (within the comparison tolerance): the result is then that whole number
    let x: f64 = kani::any();
    let p = Primitive::Number(x);
    let r = p.as_integer_cast();
    if let Ok(v) = &r {
        assert!(x.is_finite());
        let d = x - (*v as f64);
        assert!(d > -1.0 && d < 1.0);
    }
    std::mem::forget(r);
    std::mem::forget(p);
}
#[kani::proof]
fn arith_conv_number_as_usize() {
    let x: f64 = kani::any();
    let p = Primitive::Number(x);
    let r = p.as_usize_cast();
    if let Ok(v) = &r {
        assert!(x.is_finite());
        let d = x - (*v as f64);
        assert!(d > -1.0 && d < 1.0);
    }
    std::mem::forget(r);
    std::mem::forget(p);
}
#[kani::proof]
fn arith_conv_reach_witness() {
    let x: f64 = kani::any();
    let p = Primitive::Number(x);
    let r = p.as_integer_cast();
    if r.is_ok() {
        assert!(false); // must be reported FAILED
    }
    std::mem::forget(r);
    std::mem::forget(p);
}
