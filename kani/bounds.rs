// Kani harnesses for the interval kernels (C07), included inside `transformers/bounds.rs`.
// Values: the dyadic grid D = {k/2 : |k| <= 8} (exact in f64, closed under the few operations
// each kernel performs, so float = real on it) extended with +-inf; tolerance probes for
// `intersection`.  Asserted: enclosure (x in [a,b], y in [c,d] => x op y in result), never NaN.

fn grid() -> f64 {
    let k: i8 = kani::any();
    kani::assume(k >= -8 && k <= 8);
    (k as f64) * 0.5
}
fn grid_inf() -> f64 {
    let sel: u8 = kani::any();
    if sel == 0 {
        f64::NEG_INFINITY
    } else if sel == 1 {
        f64::INFINITY
    } else {
        grid()
    }
}
fn interval() -> (f64, f64) {
    let (a, b) = (grid_inf(), grid_inf());
    kani::assume(a <= b);
    kani::assume(a != f64::INFINITY && b != f64::NEG_INFINITY);
    (a, b)
}
fn point_in(a: f64, b: f64) -> f64 {
    let x = grid();
    kani::assume(a <= x && x <= b);
    x
}
fn no_nan(r: Bounds) {
    assert!(!r.lower.is_nan() && !r.upper.is_nan());
}

#[kani::proof]
fn ival_add() {
    let (a, b) = interval();
    let (c, d) = interval();
    let (x, y) = (point_in(a, b), point_in(c, d));
    let r = Bounds::new(a, b).add(Bounds::new(c, d));
    no_nan(r);
    assert!(r.lower <= x + y && x + y <= r.upper);
}
#[kani::proof]
fn ival_sub() {
    let (a, b) = interval();
    let (c, d) = interval();
    let (x, y) = (point_in(a, b), point_in(c, d));
    let r = Bounds::new(a, b).sub(Bounds::new(c, d));
    no_nan(r);
    assert!(r.lower <= x - y && x - y <= r.upper);
}
#[kani::proof]
fn ival_neg_abs() {
    let (a, b) = interval();
    let x = point_in(a, b);
    let r = Bounds::new(a, b).neg();
    no_nan(r);
    assert!(r.lower <= -x && -x <= r.upper);
    let r = Bounds::new(a, b).abs();
    no_nan(r);
    let ax = if x < 0.0 { -x } else { x };
    assert!(r.lower <= ax && ax <= r.upper);
    assert!(r.lower >= 0.0 || a >= 0.0 || b <= 0.0 || r.lower == 0.0);
}
#[kani::proof]
fn ival_scale() {
    let (a, b) = interval();
    let x = point_in(a, b);
    let k = grid();
    let r = Bounds::new(a, b).scale(k);
    no_nan(r);
    assert!(r.lower <= x * k && x * k <= r.upper);
}
#[kani::proof]
fn ival_div_by() {
    let (a, b) = interval();
    let x = point_in(a, b);
    // divisors whose reciprocal is exact: +-1, +-2, +-4, +-1/2, and 0 (unbounded result)
    let sel: u8 = kani::any();
    kani::assume(sel < 9);
    let k = [1.0, -1.0, 2.0, -2.0, 4.0, -4.0, 0.5, -0.5, 0.0][sel as usize];
    let r = Bounds::new(a, b).div_by(k);
    no_nan(r);
    if k != 0.0 {
        assert!(r.lower <= x / k && x / k <= r.upper);
    } else {
        assert!(r.lower == f64::NEG_INFINITY && r.upper == f64::INFINITY);
    }
}
#[kani::proof]
fn ival_sums_never_nan() {
    let (a, b) = (grid_inf(), grid_inf());
    assert!(!lower_sum(a, b).is_nan() && !upper_sum(a, b).is_nan());
    // inf + -inf resolves to the conservative side
    if a.is_infinite() && b.is_infinite() && a != b {
        assert!(lower_sum(a, b) == f64::NEG_INFINITY && upper_sum(a, b) == f64::INFINITY);
    }
}
#[kani::proof]
fn ival_intersection() {
    // grid values plus tolerance probes around them: 2^-40 is below the analyzer tolerance (1e-9), 2^-10 above
    let probe = || -> f64 {
        let g = grid();
        let sel: u8 = kani::any();
        match sel % 5 {
            0 => g,
            1 => g + 9.094947017729282e-13,
            2 => g - 9.094947017729282e-13,
            3 => g + 0.0009765625,
            _ => g - 0.0009765625,
        }
    };
    let (a, b, c, d) = (probe(), probe(), probe(), probe());
    kani::assume(a <= b && c <= d);
    let tol = 1e-9;
    let x = probe();
    match Bounds::new(a, b).intersection(Bounds::new(c, d), tol) {
        Some(r) => {
            no_nan(r);
            // a superset of the true intersection
            if a <= x && x <= b && c <= x && x <= d {
                assert!(r.lower <= x && x <= r.upper);
            }
        }
        None => {
            // only when the true intersection is empty by more than the tolerance
            let lo = if a > c { a } else { c };
            let hi = if b < d { b } else { d };
            assert!(lo - hi > tol);
        }
    }
}
#[kani::proof]
fn ival_from_variable_type() {
    let (lo, hi): (i32, i32) = (kani::any(), kani::any());
    let b = Bounds::from_variable_type(&VariableType::IntegerRange(lo, hi));
    assert!(b.lower == lo as f64 && b.upper == hi as f64);
    let b = Bounds::from_variable_type(&VariableType::Boolean);
    assert!(b.lower == 0.0 && b.upper == 1.0);
    let (l, u) = (grid_inf(), grid_inf());
    let b = Bounds::from_variable_type(&VariableType::Real(l, u));
    assert!(b.lower == l && b.upper == u);
    let b = Bounds::from_variable_type(&VariableType::NonNegativeReal(l, u));
    assert!(b.lower == l && b.upper == u);
}
#[kani::proof]
fn ival_required_bounds() {
    // required_bounds(cmp) contains d  <=>  d cmp 0   (non-strict comparisons; every f64 but NaN)
    let d: f64 = kani::any();
    kani::assume(!d.is_nan());
    let r = required_bounds(crate::math::Comparison::LessOrEqual);
    assert!((r.lower <= d && d <= r.upper) == (d <= 0.0));
    let r = required_bounds(crate::math::Comparison::GreaterOrEqual);
    assert!((r.lower <= d && d <= r.upper) == (d >= 0.0));
    let r = required_bounds(crate::math::Comparison::Equal);
    assert!((r.lower <= d && d <= r.upper) == (d == 0.0));
}
// vacuity witness
#[kani::proof]
fn ival_reach_witness() {
    let (a, b) = interval();
    let (c, d) = interval();
    let (x, y) = (point_in(a, b), point_in(c, d));
    let r = Bounds::new(a, b).add(Bounds::new(c, d));
    if r.lower <= x + y {
        assert!(false); // must be reported FAILED
    }
}

// (Harnesses asserting that the end points enclose the EXACT sum / product / quotient - residuals from Knuth's TwoSum
// and the fma remainder - were written after the outward-rounding fix and measured: over all doubles, and also over
// 16-bit significands at four exponents plus eight non-dyadic constants, none of add / scale / div_by finished within
// 600-700 s (57k variables, the UNSAT proof is the TwoSum theorem itself). Not run; the property is decided end to end
// by C07's ill-conditioned and cancellation-chain families instead.)
