// Kani harnesses over crate-visible kernels (C13, C14), included from `src/verif_hooks.rs`.
use crate::math::{float_eq, float_ge, float_gt, float_le, float_lt, float_ne};
use crate::solvers::{SimplexError, StepAction, Tableau};
use crate::transformers::EqualityConstraint;

fn grid() -> f64 {
    let k: i8 = kani::any();
    kani::assume(k >= -8 && k <= 8);
    (k as f64) * 0.5
}
/// grid values and tolerance probes: +-2^-20 (below the 1e-5 tolerance) and +-2^-10 (above it)
fn probe() -> f64 {
    let g = grid();
    let sel: u8 = kani::any();
    match sel % 5 {
        0 => g,
        1 => g + 9.5367431640625e-7,
        2 => g - 9.5367431640625e-7,
        3 => g + 0.0009765625,
        _ => g - 0.0009765625,
    }
}

// ---------------------------------------------------------------- fpred
#[kani::proof]
fn fpred_consistent_order() {
    let (a, b) = (probe(), probe());
    let (eq, lt, gt, le, ge) = (float_eq(a, b), float_lt(a, b), float_gt(a, b), float_le(a, b), float_ge(a, b));
    // exactly one of lt / eq / gt; le = lt or eq; ge = gt or eq; ne = not eq
    assert!((eq as u8) + (lt as u8) + (gt as u8) == 1);
    assert!(le == (lt || eq) && ge == (gt || eq));
    assert!(float_ne(a, b) == !eq);
    // symmetric
    assert!(float_eq(b, a) == eq && float_lt(b, a) == gt);
    // values within 2^-20 of each other are equal, values 2^-10 apart are not
    let d = if a > b { a - b } else { b - a };
    if d <= 9.5367431640625e-7 * 2.0 {
        assert!(eq);
    }
    if d >= 0.0009765625 - 9.5367431640625e-7 * 2.0 {
        assert!(!eq);
    }
}

// ---------------------------------------------------------------- stdk
#[kani::proof]
#[kani::unwind(4)]
fn stdk_equality_constraint_normalised() {
    let (c0, c1) = (grid(), grid());
    let rhs = probe();
    let c = EqualityConstraint::new(vec![c0, c1], rhs);
    // rhs >= 0 afterwards and (coefficients, rhs) = +-(input)
    assert!(c.rhs() >= 0.0);
    let same = c.rhs() == rhs && c.coefficient(0) == c0 && c.coefficient(1) == c1;
    let flipped = c.rhs() == -rhs && c.coefficient(0) == -c0 && c.coefficient(1) == -c1;
    assert!(same || flipped);
    std::mem::forget(c);
}
// (a harness over `normalize_constraint` itself was measured at > 8 min / 3 GB because of its Vec resize/push
// and is not run; the slack/surplus placement is covered for all points by the C13 SMT obligations)
#[kani::proof]
fn stdk_reach_witness() {
    let rhs = probe();
    let c = EqualityConstraint::new(vec![grid()], rhs);
    if c.rhs() >= 0.0 {
        assert!(false); // must be reported FAILED
    }
    std::mem::forget(c);
}

// ---------------------------------------------------------------- tab (thorough tier)
fn small() -> f64 {
    let k: i8 = kani::any();
    kani::assume(k >= -2 && k <= 2);
    k as f64
}
/// One `Tableau::step` from an ARBITRARY canonical 2x3 tableau (entries in {-2..2}, b >= 0, unit basis
/// columns): the inductive step, so it covers pivot sequences of any length inside the entry set.
#[kani::proof]
#[kani::unwind(4)]
fn tab_step_2x3() {
    let a00 = small();
    let a10 = small();
    let b0 = small();
    let b1 = small();
    kani::assume(b0 >= 0.0 && b1 >= 0.0);
    let c0 = small();
    let a = vec![vec![a00, 1.0, 0.0], vec![a10, 0.0, 1.0]];
    let mut t = Tableau::new(vec![c0, 0.0, 0.0], a, vec![b0, b1], vec![1, 2], 0.0, 0.0, Vec::new(), false);
    match t.step(&[]) {
        Ok(StepAction::Pivot { entering, leaving, .. }) => {
            assert!(entering == 0);
            let (p, other, bp, bo) = if leaving == 0 { (a00, a10, b0, b1) } else { (a10, a00, b1, b0) };
            assert!(p > 0.0);
            let o = 1 - leaving;
            // the new rows are the stated invertible combination of the old ones (old = M * new)
            assert!(t.a_matrix()[leaving][0] * p == p && t.b_vec()[leaving] * p == bp);
            assert!(t.a_matrix()[o][0] == 0.0);
            assert!(t.b_vec()[o] + (other / p) * bp == bo);
            // basic solution stays non-negative, reduced cost of the entering column vanishes,
            // the objective does not get worse, the basis bookkeeping is updated
            assert!(t.b_vec()[0] >= 0.0 && t.b_vec()[1] >= 0.0);
            assert!(t.c_vec()[0] == 0.0);
            assert!(t.current_value() >= 0.0);
            assert!(t.in_basis()[leaving] == 0);
        }
        Ok(StepAction::Finished) => {
            assert!(c0 >= 0.0);
        }
        Err(SimplexError::Unbounded) => {
            assert!(c0 < 0.0 && a00 <= 0.0 && a10 <= 0.0);
        }
        Err(_) => {
            assert!(false);
        }
    }
    std::mem::forget(t);
}

// (Harnesses over `IterableKind::read` with a NON-EMPTY outer level - nested constant array, index path with each index
// any usize, Display of the array and alloc::fmt::format stubbed out - were measured for C18 after seeded change C18-b and are not run: with a
// symbolic path length 900 s / 10 GB without a verdict; with a concrete length, a two-level array and the non-final
// index constrained to the out-of-range values 700 s without a verdict. `current = &v[i]` is a symbolic pointer as
// soon as the guard is symbolic, and CBMC then explores the clone of every variant (graphs with their hash maps).)

// ---------------------------------------------------------------- span (C18: rendering an error against the source)
// `InputSpan::span_text` cuts the reported span out of the source text; its fields are public (and settable from the
// wasm side), its documented contract is "Err if the span is out of bounds". For ALL (start, len) in u32 x u32 over a
// text with one-, two- and three-byte characters: the call returns, Ok exactly when the span lies inside the text on
// character boundaries, and then it is that slice. `format!` of the error text is stubbed out.
fn stub_format_span(_a: std::fmt::Arguments<'_>) -> String {
    String::new()
}
#[kani::proof]
#[kani::unwind(12)]
#[kani::stub(alloc::fmt::format, stub_format_span)]
fn span_text_total() {
    let text = "a\u{2264}b\u{e9}c"; // bytes: a(1) <=(3) b(1) e'(2) c(1) = 8
    let s = crate::utils::InputSpan { start_line: 1, start_column: 1, start: kani::any(), len: kani::any(), tempered: false };
    let r = s.span_text(text);
    let (st, ln) = (s.start as u64, s.len as u64);
    let boundary = |p: u64| p == 0 || p == 1 || p == 4 || p == 5 || p == 7 || p == 8;
    let inside = st + ln <= 8 && boundary(st) && boundary(st + ln);
    assert!(r.is_ok() == inside);
    if let Ok(t) = &r {
        assert!(t.len() as u64 == ln);
    }
    std::mem::forget(r);
}
#[kani::proof]
#[kani::unwind(12)]
#[kani::stub(alloc::fmt::format, stub_format_span)]
fn span_reach_witness() {
    let text = "a\u{2264}b\u{e9}c";
    let s = crate::utils::InputSpan { start_line: 1, start_column: 1, start: kani::any(), len: kani::any(), tempered: false };
    let r = s.span_text(text);
    if let Ok(t) = &r {
        if t.len() == 3 {
            assert!(false); // must be reported FAILED
        }
    }
    std::mem::forget(r);
}

// ---------------------------------------------------------------- idx (C18: indexing of nested constant arrays)
// What IS tractable of `IterableKind::read`: an index path [i0, i1] (each any usize) into a nested array whose outer
// level is EMPTY - every i0 is out of range there, the bounds guard of the non-final index is then a constant for CBMC
// and no symbolic pointer arises - and any single index into a flat array. Asserted: the call returns, Err / Ok as the
// shape dictates. (Non-empty outer levels: no verdict in 700-900 s, see the note above.)
fn stub_format_idx(_a: std::fmt::Arguments<'_>) -> String {
    String::new()
}
fn stub_iterable_fmt(_s: &crate::primitives::iterable::IterableKind, _f: &mut std::fmt::Formatter<'_>) -> std::fmt::Result {
    Ok(())
}
#[kani::proof]
#[kani::unwind(4)]
#[kani::stub(<crate::primitives::iterable::IterableKind as std::fmt::Display>::fmt, stub_iterable_fmt)]
#[kani::stub(alloc::fmt::format, stub_format_idx)]
fn idx_read_empty_outer() {
    let a = crate::primitives::iterable::IterableKind::Iterables(vec![]);
    let i0: usize = kani::any();
    let i1: usize = kani::any();
    let r = a.read(vec![i0, i1]);
    assert!(r.is_err());
    std::mem::forget(r);
    std::mem::forget(a);
}
#[kani::proof]
#[kani::unwind(4)]
#[kani::stub(<crate::primitives::iterable::IterableKind as std::fmt::Display>::fmt, stub_iterable_fmt)]
#[kani::stub(alloc::fmt::format, stub_format_idx)]
fn idx_read_flat() {
    let a = crate::primitives::iterable::IterableKind::Integers(vec![1, 2, 3]);
    let i0: usize = kani::any();
    let r = a.read(vec![i0]);
    assert!(r.is_ok() == (i0 < 3));
    std::mem::forget(r);
    std::mem::forget(a);
}
#[kani::proof]
#[kani::unwind(4)]
#[kani::stub(<crate::primitives::iterable::IterableKind as std::fmt::Display>::fmt, stub_iterable_fmt)]
#[kani::stub(alloc::fmt::format, stub_format_idx)]
fn idx_reach_witness() {
    let a = crate::primitives::iterable::IterableKind::Integers(vec![1, 2, 3]);
    let i0: usize = kani::any();
    let r = a.read(vec![i0]);
    if r.is_ok() {
        assert!(false); // must be reported FAILED
    }
    std::mem::forget(r);
    std::mem::forget(a);
}

// ---------------------------------------------------------------- util (C13: column removal kernel)
// `remove_many` drops the free-variable columns from the variable list, the objective and every row of the standard
// form. For a 5-element f64 vector (the instantiation used for coefficients; names use the String one, not run) and
// ANY two indexes (any usize, equal or not, in range or not): exactly the elements at the listed positions disappear,
// the others keep their order.
#[kani::proof]
#[kani::unwind(7)]
fn util_remove_many_f64() {
    let src = [10.0f64, 11.0, 12.0, 13.0, 14.0];
    let mut v = src.to_vec();
    let i0: usize = kani::any();
    let i1: usize = kani::any();
    crate::utils::remove_many(&mut v, &[i0, i1]);
    let mut k = 0usize;
    let mut j = 0usize;
    while j < 5 {
        if j != i0 && j != i1 {
            assert!(k < v.len() && v[k] == src[j]);
            k += 1;
        }
        j += 1;
    }
    assert!(v.len() == k);
}
#[kani::proof]
#[kani::unwind(7)]
fn util_reach_witness() {
    let mut v = [10.0f64, 11.0, 12.0, 13.0, 14.0].to_vec();
    let i0: usize = kani::any();
    let i1: usize = kani::any();
    crate::utils::remove_many(&mut v, &[i0, i1]);
    if v.len() == 3 {
        assert!(false); // must be reported FAILED
    }
}

// (A harness over the range builtin `NumericRange::call` - bounds in [-3, 4]^2, both kinds of end - was measured after
// seeded change C18-d and is not run: the builtin is reachable only through PreExp evaluation and the transformer /
// function contexts (hash maps: std's RandomState needs a stub for its key syscall); with that stub no verdict in 700 s.)
