// Kani harnesses for the requirement / comparison kernels of the linearizer (C01, C02),
// included inside `transformers/linearizer.rs`.

fn any_requirement() -> ValueRequirement {
    let k: u8 = kani::any();
    match k % 3 {
        0 => ValueRequirement::PreferLower,
        1 => ValueRequirement::PreferHigher,
        _ => ValueRequirement::Exact,
    }
}
fn any_comparison() -> Comparison {
    let k: u8 = kani::any();
    match k % 5 {
        0 => Comparison::LessOrEqual,
        1 => Comparison::GreaterOrEqual,
        2 => Comparison::Equal,
        3 => Comparison::Less,
        _ => Comparison::Greater,
    }
}
fn grid() -> f64 {
    let k: i8 = kani::any();
    kani::assume(k >= -8 && k <= 8);
    (k as f64) * 0.5
}

#[kani::proof]
fn req_reversed_involution() {
    let r = any_requirement();
    assert!(r.reversed().reversed() == r);
    assert!((r.reversed() == r) == (r == ValueRequirement::Exact));
}
#[kani::proof]
fn req_through_scale_all_doubles() {
    // reverses iff the coefficient is negative, for EVERY f64 (NaN, +-0, +-inf included)
    let r = any_requirement();
    let c: f64 = kani::any();
    let got = r.through_scale(c);
    if c < 0.0 {
        assert!(got == r.reversed());
    } else {
        assert!(got == r);
    }
}
#[kani::proof]
fn req_monotonicity_lemma() {
    // why reversing on a negative coefficient is right: for grid c, t, t' with t' >= t,
    // c*t' >= c*t iff the requirement is not reversed (c >= 0), and c*t' <= c*t iff c <= 0
    let (c, t, t2) = (grid(), grid(), grid());
    kani::assume(t2 >= t);
    let r = ValueRequirement::PreferLower.through_scale(c);
    if r == ValueRequirement::PreferLower {
        assert!(c * t2 >= c * t);
    } else {
        assert!(c * t2 <= c * t);
    }
}
#[kani::proof]
fn cmp_reversal_consistent() {
    // holds(a, cmp, b) <=> holds(b, reversed(cmp), a) for all doubles without NaN
    let (a, b): (f64, f64) = (kani::any(), kani::any());
    kani::assume(!a.is_nan() && !b.is_nan());
    let c = any_comparison();
    assert!(comparison_holds(a, c, b) == comparison_holds(b, reversed_comparison(c), a));
    assert!(reversed_comparison(reversed_comparison(c)) == c);
}
#[kani::proof]
fn cmp_holds_matches_order() {
    let (a, b): (f64, f64) = (kani::any(), kani::any());
    kani::assume(!a.is_nan() && !b.is_nan());
    assert!(comparison_holds(a, Comparison::LessOrEqual, b) == (a <= b));
    assert!(comparison_holds(a, Comparison::GreaterOrEqual, b) == (a >= b));
    assert!(comparison_holds(a, Comparison::Equal, b) == (a == b));
    assert!(comparison_holds(a, Comparison::Less, b) == (a < b));
    assert!(comparison_holds(a, Comparison::Greater, b) == (a > b));
}
#[kani::proof]
fn req_reach_witness() {
    let r = any_requirement();
    let c: f64 = kani::any();
    if c < 0.0 && r.through_scale(c) == r.reversed() {
        assert!(false); // must be reported FAILED
    }
}
