#!/bin/bash
# one-time setup after a fresh restore (offline): build the driver against /repo, check the solver stack
set -e
cd "$(dirname "$0")"
export CARGO_NET_OFFLINE=true
python3-vt -c "import z3; print('z3', z3.get_version_string())"
python3-vt -c "import sys; sys.path.insert(0,'smt'); import common; print('driver built in %.1fs' % common.build_driver())"
