"""C03: end-to-end answers are right.

Every text of the family (printed from a generator tree by the independent printer textgen.py,
over BOUNDED domains) goes through the real `RoocSolver::try_new(text)?.solve_using(auto_solver)`.
z3 judges the outcome on the generator's own tree (sem.py), never on anything the compiler made:
  solution   -> the point satisfies the source (exact evaluation, 1e-6), the reported objective is
                the source objective there, and NO satisfying assignment is better (unsat query);
  infeasible -> Src(x) is unsatisfiable (unsat query);
  anything else (compile error, unbounded, panic, hang) on a model whose domains are bounded is a violation.
"""
import json, os, sys, time, random
from fractions import Fraction
import z3
import common, sem, lin, gen, zq, textgen
from common import run_driver, parallel, Report, tier, seed, canon

QT = 10000
TOL = Fraction(1, 10 ** 6)


def judge(it, o):
    m = it['model']
    res = {'idx': it['idx'], 'fails': [], 'q': 0, 'unknown': [], 'status': 'ok'}
    names = [v[0] for v in m['vars']]
    env = sem.mk_env(names)
    S = sem.src_c(m, env)
    f = sem.val(m['obj']['e'], env)
    d = m['obj']['dir']
    if o.get('crash') or o.get('panic'):
        res['fails'].append({'ob': 'panic', 'point': None})
        return res
    if o.get('hang'):
        res['fails'].append({'ob': 'solver-hang', 'point': None})
        return res
    if o.get('ok'):
        res['status'] = 'solution'
        doms = dict((v[0], v[1]) for v in m['vars'])
        vals = {}
        for nm, v, _ in o['x']:
            if nm in doms:
                x = Fraction(float(v))
                if doms[nm]['k'] in ('Boolean', 'Int') and abs(x - round(x)) <= TOL:
                    x = Fraction(round(x))
                vals[nm] = x
        missing = [n for n in names if n not in vals]
        if missing:
            res['fails'].append({'ob': 'variable-without-value', 'missing': missing, 'point': None})
            return res
        if not py_src_tol(m, vals):
            res['fails'].append({'ob': 'returned-point-violates-source', 'x': {k: str(v) for k, v in vals.items()}, 'value': o['value'], 'point': None})
            return res
        val = Fraction(float(o['value']))
        if d != 'solve':
            fv = sem.pyval(m['obj']['e'], vals)
            if abs(fv - val) > TOL * 10 * (1 + abs(val)):
                res['fails'].append({'ob': 'reported-objective-wrong', 'reported': o['value'], 'at_point': str(fv), 'point': None})
            mg = sem.Q(TOL * 10 * (1 + abs(val)))
            better = (f < sem.Q(val) - mg) if d == 'min' else (f > sem.Q(val) + mg)
            v, pt, _ = zq.query([S, better], timeout_ms=QT, want_vars=env)
            res['q'] += 1
            if v == 'unknown':
                res['unknown'].append('optimal')
            if v == 'sat':
                res['fails'].append({'ob': 'better-assignment-exists', 'reported': o['value'], 'point': zq.point_json(pt)})
        return res
    kind = o.get('kind')
    v, pt, _ = zq.query([S], timeout_ms=QT, want_vars=env)
    res['q'] += 1
    if v == 'unknown':
        res['unknown'].append('feasible')
        return res
    if kind == 'Infeasible':
        res['status'] = 'infeasible'
        if v == 'sat':
            res['fails'].append({'ob': 'infeasible-but-satisfiable', 'point': zq.point_json(pt)})
        return res
    res['status'] = 'error:' + str(kind)
    if v == 'unsat':
        res['fails'].append({'ob': 'contradictory-model-not-reported-infeasible', 'kind': kind, 'lin_kind': o.get('lin_kind'), 'msg': (o.get('msg') or '')[:100], 'point': None})
    else:
        res['fails'].append({'ob': 'satisfiable-model-without-solution', 'kind': kind, 'lin_kind': o.get('lin_kind'), 'msg': (o.get('msg') or '')[:100], 'point': zq.point_json(pt)})
    return res


def py_src_tol(m, vals):
    for n, dmn, *_ in m['vars']:
        if not sem.py_dom(vals[n], dmn, TOL * (1 + abs(vals[n]))):
            return False
    for c in m['cons']:
        if not sem.py_con(c, vals, TOL * 10 * sem.cons_scale(c)):
            return False
    return True


def work(chunk):
    zq.reset_stats()
    outs = run_driver([{'cmd': 'solve_text', 'src': it['src']} for it in chunk])
    results = []
    for it, o in zip(chunk, outs):
        try:
            r = judge(it, o)
            if it['idx'] % 20 == 0 and o.get('ok') and it['model']['obj']['dir'] != 'solve':
                # must-fail twin: a worse value reported as optimal
                o2 = dict(o)
                worse = 1 if it['model']['obj']['dir'] == 'min' else -1
                o2['value'] = repr(float(o['value']) + worse)
                r2 = judge(it, o2)
                r['twin'] = (1, 1 if r2['fails'] else 0)
        except Exception:
            import traceback
            r = {'idx': it['idx'], 'fails': [], 'q': 0, 'unknown': [], 'status': 'fault', 'fault': traceback.format_exc()[-600:]}
        results.append(r)
    return [{'results': results, 'stats': dict(zq.STATS)}]


def bounded_profiles():
    D = gen.D
    return [
        {'x': D('Real', -2, 3), 'y': D('Real', -1.5, 4), 'p': D('Boolean'), 'q': D('Boolean')},
        {'x': D('Int', -3, 4), 'y': D('Int', 0, 2), 'p': D('Boolean'), 'q': D('Boolean')},
        {'x': D('NNReal', 0, 4), 'y': D('Real', -3, -1), 'p': D('Boolean'), 'q': D('Boolean')},
        {'x': D('Boolean'), 'y': D('Real', -2, 3), 'p': D('Boolean'), 'q': D('Boolean')},
    ]


def family(t, sd):
    items = []
    rnd = random.Random(3)
    styles = ['paren', 'min', 'alias']
    # M1 members over bounded profiles (literal-free logic trees)
    nums, logs = gen.e1plus_typed(0)
    profs = bounded_profiles()
    step = 4 if t == 'quick' else 1
    ks = [0, 1, -1, 2, 0.5]
    k = 0
    for i, e in enumerate(nums[::step]):
        doms = profs[i % len(profs)]
        cmp_ = ('<=', '>=', '=')[i % 3]
        m = gen.mk_model('min' if i % 2 else 'max', ['+', gen.var('x'), gen.var('y')], [gen.row(e, cmp_, gen.num(ks[i % 5]))], doms)
        items.append({'model': m, 'style': styles[i % 3]})
        m = gen.mk_model('min' if (i // 2) % 2 else 'max', e, [gen.row(['+', gen.var('x'), gen.var('y')], '<=', gen.num(3))], doms)
        items.append({'model': m, 'style': styles[(i + 1) % 3]})
    for j, e in enumerate(logs):
        doms = profs[0]
        items.append({'model': gen.mk_model('max' if j % 2 else 'min', ['+', gen.var('p'), gen.var('q')], [{'assert': e}], doms), 'style': styles[j % 3]})
        if "'implies'" in str(e) or "'iff'" in str(e):
            # the same assertion relying on the documented associativity of the shared implies / iff level
            items.append({'model': gen.mk_model('min' if j % 2 else 'max', ['+', gen.var('p'), gen.var('q')], [{'assert': e}], doms), 'style': 'assoc'})
    # seeded composite models, bounded domains, names, where-constants, avg blocks
    seeds = (101, 102, 103) if t == 'quick' else tuple(1000 * sd + k for k in range(12))
    n = 1200 if t == 'quick' else 5000
    for s in seeds:
        for im, it in enumerate(gen.seeded_models(s, n, maxd=3 if t == 'quick' else 4, text_mode=True, bounded=True, names=True)):
            items.append({'model': it['model'], 'style': styles[im % 3], 'lift': im % 4 == 0})
    # constant-only constraints (true and false), with and without any variable in the model
    cexprs = [gen.num(1), gen.num(0), gen.num(-1), ['min', [gen.num(2), gen.num(0), gen.num(-1)]], ['abs', gen.num(-1)], ['max', [gen.num(1), gen.num(2)]],
              ['+', gen.num(1), gen.num(1)], ['neg', gen.num(2)], ['/', gen.num(1), gen.num(2)], ['avg', [gen.num(1), gen.num(2)]]]
    ci = 0
    for a in cexprs:
        for b in cexprs[:4]:
            for cmp_ in ('<=', '>=', '='):
                ci += 1
                con = gen.row(a, cmp_, b)
                for objkind in range(3):
                    if objkind == 0:
                        m = {'vars': [], 'obj': {'dir': 'max' if ci % 2 else 'min', 'e': gen.num(1)}, 'cons': [con]}
                    elif objkind == 1:
                        m = {'vars': [['x', gen.D('Real', 0, 2)]], 'obj': {'dir': 'max' if ci % 2 else 'min', 'e': gen.var('x')}, 'cons': [con]}
                    else:
                        m = {'vars': [['x', gen.D('Int', 0, 2)]], 'obj': {'dir': 'min', 'e': gen.num(0.5)}, 'cons': [gen.row(gen.var('x'), '>=', gen.num(1)), con]}
                    if (ci + objkind) % (1 if t == 'thorough' else 2) == 0:
                        items.append({'model': m, 'style': styles[ci % 3], 'allow_empty': True})
    for im, it in enumerate(gen.diverging_family(bounded=True)):
        items.append({'model': it['model'], 'style': styles[im % 3]})
    for im, it in enumerate(gen.nested_family()):
        if t == 'thorough' or im % 2 == 0:
            items.append({'model': it['model'], 'style': styles[im % 3]})
    # satisfiability variants: every sixth model also without an objective (`solve`)
    import copy as _copy
    for i, it in enumerate(list(items)):
        if i % 6 == 3 and it['model']['vars']:
            src_m = _copy.deepcopy(it['model'])
            # declare exactly the variables the constraints use (the text door drops unused declarations)
            mm = gen.mk_model('solve', gen.num(0), src_m['cons'], dict((n, d) for n, d in src_m['vars']))
            if mm['vars']:
                items.append(dict(it, model=mm))
    out = []
    for k_, it in enumerate(items):
        m = it['model']
        if not m['vars'] and not it.get('allow_empty'):
            continue
        if k_ % 3:
            m = gen.rename_vars(m, gen.NAME_STYLES[k_ % 3])
            it = dict(it, model=m)
        consts = None
        m2 = m
        if it.get('lift'):
            m2, consts = textgen.lift_constants(m)
        try:
            src = textgen.model_text(m2, it['style'], consts)
        except Exception:
            continue
        out.append({'model': m, 'style': it['style'], 'src': src})
    lim = os.environ.get('VERIF_LIMIT')
    if lim:
        out = out[::max(1, len(out) // int(lim))]
    random.Random(77).shuffle(out)
    for i, it in enumerate(out):
        it['idx'] = i
    return out


def replay_work(chunk):
    res = []
    for it, fail in chunk:
        o = run_driver([{'cmd': 'solve_text', 'src': it['src']}])[0]
        r = judge(dict(it, idx=0), o)
        same = [f for f in r['fails'] if f['ob'] == fail['ob']]
        if not same:
            res.append((False, {'why': 'not reproduced'}))
            continue
        d = {'real_outcome': o, 'source': it['src']}
        f = same[0]
        ok = True
        if f.get('point'):
            pt = zq.point_from_json(f['point'])
            d['witness_satisfies_source_exact'] = sem.py_src(it['model'], pt)
            ok = d['witness_satisfies_source_exact']
            if f['ob'] == 'better-assignment-exists':
                d['witness_objective'] = str(sem.pyval(it['model']['obj']['e'], pt))
        res.append((ok, d))
    return res


def main(prop='C03'):
    t, sd = tier(), seed()
    rep = Report('C03')
    build_s = common.build_driver()
    items = family(t, sd)
    t0 = time.time()
    parts = parallel(work, items, chunk=40)
    stats = dict.fromkeys(zq.STATS, 0)
    results = []
    for p in parts:
        results += p['results']
        for k in stats:
            stats[k] += p['stats'][k]
    by_status, tw, todo = {}, [0, 0], []
    for r in results:
        by_status[r['status']] = by_status.get(r['status'], 0) + 1
        it = items[r['idx']]
        if 'twin' in r:
            tw[0] += r['twin'][0]
            tw[1] += r['twin'][1]
        if r['status'] == 'fault':
            rep.broken.append(r.get('fault'))
        for u in r['unknown']:
            rep.inconclusive.append({'src': it['src'], 'obligation': u})
        for f in r['fails']:
            todo.append((it, f))
    replayed = parallel(replay_work, todo, chunk=5) if todo else []
    confirmed = 0
    classes = {}
    for (it, f), (ok, detail) in zip(todo, replayed):
        sig = {'stage': 'end-to-end', 'obligation': f['ob'], 'kind': f.get('kind'), 'lin_kind': f.get('lin_kind'), 'variable_free': len(it['model']['vars']) == 0, 'source': it['src']}
        if not ok:
            rep.broken.append({'why': 'did not reproduce', 'sig': sig, 'detail': detail})
            continue
        confirmed += 1
        key = '%s/%s/%s' % (f['ob'], f.get('kind'), f.get('lin_kind'))
        classes[key] = classes.get(key, 0) + 1
        rep.violation(sig, {'property': 'C03', 'source': it['src'], 'model': it['model'], 'obligation': f['ob'], 'failure': f, 'confirmation': detail})
    if tw[0] > 0 and tw[1] == 0:
        rep.broken.append({'why': 'no must-fail twin detected', 'twins': tw})
    if stats['queries'] and stats['unknown'] > 0.01 * stats['queries']:
        rep.broken.append({'why': 'more than 1% inconclusive', 'unknown': stats['unknown']})
    evidence = {
        'level': 'translation_validation', 'tier': t, 'seed': sd,
        'coverage': {
            'programs': len(items), 'by_status': by_status, 'disagreements_checked': stats['queries'], 'queries': stats,
            'obligations_per_program': ['solution: point satisfies the source (exact, 1e-6), reported objective = source objective at the point, Src(x) & f(x) better than value - tol unsat',
                                        'infeasible: Src(x) unsat', 'compile error / unbounded / panic / hang on a bounded model: violation'],
            'counterexamples_found': len(todo), 'counterexamples_confirmed_against_real_code': confirmed, 'confirmed_by_class': classes,
            'must_fail_twins': {'tried': tw[0], 'detected': tw[1]},
            'samples': [it['src'] for it in items[:4]], 'exhaustive': False,
            'family': 'P: texts printed from M1 members over bounded profiles and seeded M(d<=%d) models (bounded domains, named constraints incl. duplicates, where-constants, avg blocks) in 3 surface spellings' % (3 if t == 'quick' else 4),
            'functions_encoded': ['RoocSolver::try_new + solve_using(auto_solver): parser, type checker, transformer, linearizer, auto_solver (concrete run; the oracle queries are the quantified part)'],
            'solver': 'z3 %s' % z3.get_version_string(), 'driver_build_s': round(build_s, 1), 'check_s': round(time.time() - t0, 1),
            'outside': ['data-driven constructs (C06)', 'unbounded domains', 'wall clock'],
        },
        'assumptions': ['sem.py + textgen.py define the meaning of the printed text'],
    }
    return rep.finish(evidence)


def replay_file(prop, path):
    common.build_driver()
    r = json.load(open(path))
    ok, detail = replay_work([({'src': r['source'], 'model': r['model']}, r['failure'])])[0]
    print(json.dumps({'reproduces': ok, 'detail': detail}, indent=1, default=str)[:3000])
    if ok:
        print('VIOLATION property=C03 replay=%s' % path)
    return 1 if ok else 0


if __name__ == '__main__':
    sys.exit(main())
