"""C09: expressions parse with the documented precedence and associativity.

For every token sequence of the family the text `min 0 s.t. <seq> <= 0` is compiled by the
REAL `RoocParser::parse_and_transform`; the resulting expression tree is encoded by sem.py; an
independent precedence-climbing parser (the documented table) gives the reference tree; z3
decides that the two trees have the same value for ALL real assignments (`real != ref` unsat).
"""
import itertools, json, os, random, sys, time
from fractions import Fraction
import z3
import common, sem, zq
from common import run_driver, parallel, Report, tier, seed, canon

QT = 5000
# documented table: higher binds tighter; implies is right-associative, iff left, on one shared level
BIN = {'+': (4, 'L'), '-': (4, 'L'), '*': (5, 'L'), '/': (5, 'L'), 'and': (3, 'L'), 'xor': (2, 'L'), 'or': (1, 'L'),
       'implies': (0, 'R'), 'iff': (0, 'L')}
ALIAS = {'and': '&&', 'or': '||', 'implies': '->', 'iff': '<->', 'not': '!'}


# ------------------------------------------------------------------ reference parser over a token list
# tokens: operator names, 'neg'/'not' (prefix), atoms: ('v', name) | ('n', number) | ('p', [tokens]) parenthesised
# | ('im', [atoms]) implicit product (a single factor)
def ref_parse(toks):
    pos = [0]

    def peek():
        return toks[pos[0]] if pos[0] < len(toks) else None

    def nxt():
        t = toks[pos[0]]
        pos[0] += 1
        return t

    def atom(a):
        k = a[0]
        if k == 'v':
            return ['var', a[1]]
        if k == 'n':
            return ['num', repr(float(a[1]))]
        if k == 'lit':
            return ['num', repr(float(a[1]))]   # a literal is ONE number, however it is padded
        if k == 'p':
            return ref_parse(a[1])
        if k == 'im':
            fs_ = [atom(x) for x in a[1]]
            r = fs_[0]
            for f in fs_[1:]:
                r = ['*', r, f]
            return r
        raise ValueError(a)

    def leaf():
        t = peek()
        un = None
        if t in ('neg', 'not'):
            un = nxt()
        e = atom(nxt())
        return [un, e] if un else e

    def expr(minp):
        lhs = leaf()
        while True:
            t = peek()
            if not isinstance(t, str) or t not in BIN:
                break
            p, assoc = BIN[t]
            if p < minp:
                break
            nxt()
            rhs = expr(p + 1 if assoc == 'L' else p)
            lhs = [t, lhs, rhs]
        return lhs

    r = expr(0)
    if pos[0] != len(toks):
        raise ValueError('trailing tokens')
    return r


def to_sem(e):
    """reference tree -> sem.py tree"""
    t = e[0]
    if t in ('var', 'num'):
        return e
    if t == 'neg':
        return ['neg', to_sem(e[1])]
    if t == 'not':
        return ['not', to_sem(e[1])]
    m = {'and': 'band', 'or': 'bor', 'xor': 'xor', 'implies': 'implies', 'iff': 'iff'}.get(t, t)
    return [m, to_sem(e[1]), to_sem(e[2])]


def render_atom(a, alias):
    k = a[0]
    if k == 'v':
        return a[1]
    if k == 'n':
        s = repr(float(a[1]))
        return s[:-2] if s.endswith('.0') else s
    if k == 'lit':
        return a[1]
    if k == 'p':
        return '(' + render(a[1], alias) + ')'
    if k == 'im':
        return ''.join(render_atom(x, alias) for x in a[1])
    raise ValueError(a)


SPACING = ['wide']


def render(toks, alias):
    out = []
    for t in toks:
        if t == 'neg':
            out.append('-')
        elif t == 'not':
            out.append(ALIAS['not'] if alias else 'not ')
        elif isinstance(t, str):
            if SPACING[0] != 'wide' and t in ('+', '-', '*', '/'):
                # arithmetic operators written without the space after them ('a -2') or without any space ('a-2'):
                # where a token ends must not depend on the spacing
                out.append((' ' if SPACING[0] == 'left' else '') + t)
            else:
                out.append(' ' + (ALIAS.get(t, t) if alias else t) + ' ')
        else:
            out.append(render_atom(t, alias))
    return ''.join(out)


# ------------------------------------------------------------------ the family T(l)
VARS = ['a', 'b', 'c', 'd', 'e']


def sequences(t, sd):
    rnd = random.Random(9)
    ops = list(BIN)
    seqs = []
    V = lambda i: ('v', VARS[i])
    for n in (1, 2, 3) + ((4,) if t == 'thorough' else ()):
        for opsq in itertools.product(ops, repeat=n):
            for un in itertools.product([None, 'neg', 'not'], repeat=n + 1):
                if t == 'quick':
                    if n == 3 and rnd.random() > 0.05:
                        continue
                else:
                    if n == 3 and sum(1 for u in un if u) > 2 and rnd.random() > 0.3:
                        continue
                    if n == 4 and rnd.random() > (0.004 * (1 + sd % 3)):
                        continue
                toks = []
                for i in range(n + 1):
                    if un[i]:
                        toks.append(un[i])
                    toks.append(V(i) if not (i == 1 and n == 2 and rnd.random() < 0.2) else ('n', rnd.choice([2, 3])))
                    if i < n:
                        toks.append(opsq[i])
                seqs.append(toks)
    # parenthesised sub-sequences: (x op y) op z and x op (y op z) for every operator pair
    for o1, o2 in itertools.product(ops, repeat=2):
        seqs.append([('p', [V(0), o1, V(1)]), o2, V(2)])
        seqs.append([V(0), o1, ('p', [V(1), o2, V(2)])])
        seqs.append(['neg', ('p', [V(0), o1, V(1)]), o2, V(2)])
        seqs.append(['not', ('p', [V(0), o1, V(1)]), o2, V(2)])
    # implicit products form a single factor
    im = [('im', [('n', 2), V(0)]), ('im', [('n', 2), ('p', [V(0), '+', V(1)])]), ('im', [('p', [V(0)]), ('p', [V(1)]), V(2)]),
          ('im', [('n', 3), ('p', [V(0), '-', V(1)]), V(2)]), ('im', [('p', [V(0), '+', ('n', 1)]), ('p', [V(1), '-', ('n', 1)])]),
          ('im', [('n', 0.5), V(1)]), ('im', [('n', 2), ('p', [V(0)]), ]),
          # four and five factors: the grammar's repetition is unbounded
          ('im', [('n', 2), ('p', [V(0)]), ('p', [V(1)]), V(2)]), ('im', [('p', [V(0)]), ('p', [V(1)]), ('p', [V(2)]), ('p', [V(4)])]),
          ('im', [('n', 3), ('p', [V(0), '+', V(1)]), ('p', [V(2)]), ('p', [V(4), '-', ('n', 1)]), V(1)])]
    for f in im:
        for o in ops:
            seqs.append([V(3), o, f])
            seqs.append([f, o, V(3)])
            seqs.append(['neg', f, o, V(3)])
            seqs.append([V(3), o, 'neg', f])
            seqs.append([V(3), o, V(4), '/', f]) if o != '/' else None
            seqs.append([V(3), '/', f, o, V(4)])
    # the spelling of a numeric literal: leading and trailing zeros, many digits - one literal is one factor
    for text in ('007', '010', '05', '00.5', '1.50', '0.50', '2.0', '100', '0.125', '10.010', '000', '0.0'):
        lit = ('lit', text)
        seqs.append([lit, '+', V(0)])
        seqs.append([V(0), '*', lit])
        seqs.append([V(0), '-', lit, '*', V(1)])
        seqs.append([('im', [lit, V(0)])])
        seqs.append([V(1), '+', ('im', [lit, ('p', [V(0), '+', V(1)])])])
        seqs.append(['neg', lit, '+', V(0)])
        if float(text) != 0:
            seqs.append([V(0), '/', lit])
            seqs.append([V(0), '/', ('im', [lit, V(1)])])
    # a sign glued to a digit after a number or a closing parenthesis is still a subtraction / addition
    for op in ('-', '+'):
        seqs.append([V(0), '+', ('n', 3), op, ('n', 2)])
        seqs.append([('p', [V(0), '+', ('n', 1)]), op, ('n', 2)])
        seqs.append([V(0), '+', ('n', 3), op, ('im', [('n', 2), V(1)])])
        seqs.append([('n', 5), op, ('n', 2), '*', V(0)])
        seqs.append([V(0), '*', ('p', [V(1), '-', ('n', 1)]), op, ('n', 0.5)])
        seqs.append([('im', [('n', 2), ('p', [V(0)])]), op, ('n', 4), '+', V(1)])
    # identifiers that merely start with a keyword stay identifiers
    kw = ['andy', 'notx', 'inx', 'orb', 'xory', 'iffy', 'impliesz', 'minx', 'maxy', 'asz', 'forx', 'truex', 'letx', 'not_x', 'falsey', 'Truth', 'solver', 'wherex', 'definex']
    for k in kw:
        for o in ('and', 'or', '+', 'implies', 'xor'):
            seqs.append([('v', k), o, V(0)])
            seqs.append([V(0), o, ('v', k)])
            seqs.append(['not', ('v', k), o, V(0)])
    return [s for s in seqs if s is not None]


def names_in(toks, acc):
    for t in toks:
        if isinstance(t, tuple):
            if t[0] == 'v':
                if t[1] not in acc:
                    acc.append(t[1])
            elif t[0] in ('p',):
                names_in(t[1], acc)
            elif t[0] == 'im':
                names_in(t[1], acc)
    return acc


def program(toks, alias, as_assert):
    ns = names_in(toks, [])
    body = render(toks, alias)
    line = body if as_assert else body + ' <= 0'
    return 'min 0\ns.t.\n    ' + line + '\ndefine\n    ' + ', '.join(ns) + ' as Boolean'


def top_is_logic(ref):
    return ref[0] in ('and', 'or', 'xor', 'implies', 'iff', 'not')


def work(chunk):
    zq.reset_stats()
    jobs = [{'cmd': 'text', 'src': it['src'], 'want': ['no_lin']} for it in chunk]
    outs = run_driver(jobs)
    results = []
    for it, o in zip(chunk, outs):
        res = {'idx': it['idx'], 'fails': [], 'q': 0, 'unknown': [], 'status': 'ok'}
        try:
            m = o.get('model', {})
            if o.get('crash') or m.get('panic'):
                res['fails'].append({'ob': 'parser-panic', 'point': None})
            elif 'err' in m:
                res['status'] = 'rejected'
                res['fails'].append({'ob': 'well-formed-expression-rejected', 'error': m['err'][:200], 'point': None})
            else:
                c = m['ok']['cons'][0]
                real = c['assert'] if 'assert' in c else c['l']
                ref = to_sem(ref_parse(it['toks']))
                ns = names_in(it['toks'], [])
                env = sem.mk_env(ns)
                a, b = sem.val(real, env), sem.val(ref, env)
                d = z3.And(sem.defined(real, env), sem.defined(ref, env))
                # definedness must agree too: a denominator that moved is a different formula
                v, pt, _ = zq.query([z3.Or(z3.And(d, a != b), z3.Xor(sem.defined(real, env), sem.defined(ref, env)))], timeout_ms=QT, want_vars=env)
                res['q'] += 1
                if v == 'unknown':
                    res['unknown'].append('value')
                if v == 'sat':
                    res['fails'].append({'ob': 'parsed-tree-means-something-else', 'real': real, 'reference': ref, 'point': zq.point_json(pt)})
                if it['idx'] % 30 == 0:
                    # must-fail twin: the reference tree re-associated the wrong way
                    wrong = mis_associate(ref)
                    if wrong is not None:
                        v2, _, _ = zq.query([sem.val(real, env) != sem.val(wrong, env)], timeout_ms=QT)
                        res['twin'] = (1, 1 if v2 == 'sat' else 0)
        except Exception:
            import traceback
            res['status'] = 'fault'
            res['fault'] = traceback.format_exc()[-600:]
        results.append(res)
    return [{'results': results, 'stats': dict(zq.STATS)}]


def mis_associate(e):
    """[op2,[op1,a,b],c] -> [op1,a,[op2,b,c]] when that changes meaning syntactically"""
    if e[0] in ('var', 'num') or len(e) < 3:
        return None
    if e[1][0] not in ('var', 'num', 'neg', 'not') and len(e[1]) == 3:
        return [e[1][0], e[1][1], [e[0], e[1][2], e[2]]]
    if e[2][0] not in ('var', 'num', 'neg', 'not') and len(e[2]) == 3:
        return [e[2][0], [e[0], e[1], e[2][1]], e[2][2]]
    return None


def replay_fail(it, fail):
    r = work([dict(it, idx=1)])[0]['results'][0]
    same = [f for f in r['fails'] if f['ob'] == fail['ob']]
    if not same:
        return False, {'why': 'not reproduced'}
    f = same[0]
    d = {'source': it['src']}
    if f.get('point'):
        pt = zq.point_from_json(f['point'])
        try:
            d['real_value'] = str(sem.pyval(f['real'], pt))
        except ZeroDivisionError:
            d['real_value'] = 'undefined'
        try:
            d['reference_value'] = str(sem.pyval(f['reference'], pt))
        except ZeroDivisionError:
            d['reference_value'] = 'undefined'
        if d['real_value'] == d['reference_value']:
            return False, d
    return True, d


def main(prop='C09'):
    t, sd = tier(), seed()
    rep = Report('C09')
    build_s = common.build_driver()
    rnd = random.Random(5)
    items = []
    for toks in sequences(t, sd):
        alias = rnd.random() < 0.5
        try:
            ref = ref_parse(toks)
        except Exception:
            continue
        items.append({'toks': toks, 'alias': alias, 'src': program(toks, alias, False)})
        glued = any(isinstance(a_, str) and a_ in ('+', '-') and isinstance(b_, tuple) and (b_[0] in ('n', 'lit') or (b_[0] == 'im' and b_[1][0][0] in ('n', 'lit')))
                    for a_, b_ in zip(toks, toks[1:]))
        if any(isinstance(x, str) and x in ('+', '-', '*', '/') for x in toks) and (len(items) % 4 == 0 or glued):
            # the same sequence with the arithmetic operators glued to their right operand / to both operands
            for sp in ('left', 'none'):
                SPACING[0] = sp
                try:
                    items.append({'toks': toks, 'alias': alias, 'src': program(toks, alias, False)})
                finally:
                    SPACING[0] = 'wide'
        if top_is_logic(ref) and rnd.random() < 0.3:
            items.append({'toks': toks, 'alias': not alias, 'src': program(toks, not alias, True)})
    lim = os.environ.get('VERIF_LIMIT')
    if lim:
        items = items[::max(1, len(items) // int(lim))]
    for i, it in enumerate(items):
        it['idx'] = i
    t0 = time.time()
    parts = parallel(work, items)
    stats = dict.fromkeys(zq.STATS, 0)
    results = []
    for p in parts:
        results += p['results']
        for k in stats:
            stats[k] += p['stats'][k]
    by_status, nfail, confirmed, tw = {}, 0, 0, [0, 0]
    for r in results:
        by_status[r['status']] = by_status.get(r['status'], 0) + 1
        it = items[r['idx']]
        if 'twin' in r:
            tw[0] += r['twin'][0]
            tw[1] += r['twin'][1]
        if r['status'] == 'fault':
            rep.broken.append(r.get('fault'))
        for u in r['unknown']:
            rep.inconclusive.append({'src': it['src']})
        for fail in r['fails']:
            nfail += 1
            ok, detail = replay_fail(it, fail)
            sig = {'stage': 'parse', 'obligation': fail['ob'], 'source': it['src']}
            if not ok:
                rep.broken.append({'why': 'did not reproduce', 'sig': sig, 'detail': detail})
                continue
            confirmed += 1
            rep.violation(sig, {'property': 'C09', 'source': it['src'], 'tokens': it['toks'], 'obligation': fail['ob'], 'failure': fail, 'confirmation': detail})
    if tw[0] > 0 and tw[1] == 0:
        rep.broken.append({'why': 'no must-fail twin detected', 'twins': tw})
    evidence = {
        'level': 'translation_validation', 'tier': t, 'seed': sd,
        'coverage': {
            'programs': len(items), 'by_status': by_status, 'disagreements_checked': stats['queries'], 'queries': stats,
            'obligations_per_program': ['[[real tree]](x) != [[reference tree]](x) (or definedness differs) unsat over all real assignments', 'the well-formed text is accepted'],
            'counterexamples_found': nfail, 'counterexamples_confirmed_against_real_code': confirmed,
            'must_fail_twins': {'tried': tw[0], 'detected': tw[1]},
            'samples': [it['src'] for it in items[:: max(1, len(items) // 6)][:6]],
            'exhaustive': False,
            'family': 'T(l): all operator sequences with <=2 binary operators x unary prefixes (exhaustive) + %s; parenthesised sub-sequences for every operator pair; implicit products; keyword-prefixed identifiers; keyword and symbolic spellings' % ('5% of l=3' if t == 'quick' else 'l=3 (most) + seeded l=4'),
            'functions_encoded': ['RoocParser::parse_and_transform (pest grammar, exp_parser precedence climbing, PreExp -> Exp)'],
            'solver': 'z3 %s' % z3.get_version_string(), 'driver_build_s': round(build_s, 1), 'check_s': round(time.time() - t0, 1),
            'outside': ['longer sequences', 'blocks, indexes, iterations', 'division by a variable is in the family (definedness compared), nonlinear queries may be unknown'],
        },
        'assumptions': ['the precedence table in c09.py is the documented one'],
    }
    return rep.finish(evidence)


def replay_file(prop, path):
    common.build_driver()
    r = json.load(open(path))
    toks = tupled(r['tokens'])
    ok, detail = replay_fail({'toks': toks, 'src': r['source']}, r['failure'])
    print(json.dumps({'reproduces': ok, 'detail': detail}, indent=1, default=str)[:3000])
    if ok:
        print('VIOLATION property=C09 replay=%s' % path)
    return 1 if ok else 0


def tupled(toks):
    out = []
    for t in toks:
        if isinstance(t, list):
            if t[0] in ('p', 'im'):
                out.append((t[0], tupled(t[1])))
            else:
                out.append((t[0], t[1]))
        else:
            out.append(t)
    return out


if __name__ == '__main__':
    sys.exit(main())
