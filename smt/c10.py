"""C10: algebraic rewrites and constant spelling preserve meaning.

(a) For every tree of the E1+ (untyped) family the REAL `Exp::simplify`, `Exp::flatten`,
    `flatten().simplify()` and their second applications are run; z3 decides over ALL real
    assignments that wherever the original is defined the rewrite is defined and has the same
    value, and that a point where the original is undefined (division by zero) is not made
    defined by the rewrite.
(b) For every model with a scaled term and each re-spelling of its constants the two texts go
    through the real parser + linearizer; both must be accepted or both rejected, and if both
    compile the two linear models must have the same projection on the declared variables and
    the same objective (z3, exists/forall)."""
import itertools, json, os, random, sys, time
from fractions import Fraction
import z3
import common, sem, lin, gen, zq
from common import run_driver, parallel, Report, tier, seed, canon

QT = 8000
PART = None


def N(x):
    return ['num', repr(float(x))]


# ------------------------------------------------------------------ (a) the untyped family
def leaves(level):
    x, y = ['var', 'x'], ['var', 'y']
    cs = [0.0, 1.0, 2.0, -0.0, 0.5, -1.0] if level == 0 else [0.0, 1.0, 2.0, -0.0, 0.5, -1.0, 3.0, -2.5]
    return [x, y] + [N(c) for c in cs]


UN = ['neg', 'abs', 'not', 'unot']
BINS = ['+', '-', '*', '/', 'xor', 'implies', 'iff', 'band', 'bor', 'bxor', 'bimplies', 'biff']
NARY = ['min', 'max', 'and', 'or']


def depth1(L):
    out = []
    for u in UN:
        out += [[u, a] for a in L]
    for b in BINS:
        out += [[b, a, c] for a in L for c in L]
    for n in NARY:
        out += [[n, [a, c]] for a in L for c in L]
        out += [[n, [a, c, d]] for a in L for c in L for d in L]
    return out


def above(inner, sib):
    out = []
    for u in UN:
        out.append([u, inner])
    for b in BINS:
        for s in sib:
            out.append([b, inner, s])
            out.append([b, s, inner])
    for n in NARY:
        for s in sib:
            out.append([n, [inner, s]])
            out.append([n, [s, inner]])
        out.append([n, [sib[0], inner, sib[1]]])
    return out


def carriers(t):
    """a division that must survive (by zero, by a variable) BELOW another operator, and every operator above that:
    `0 * abs{x / 0}`, `(min{x / y, y}) and 0`, ... - the erasing rewrites look at their operands, so the division is
    put one and two levels below the operand they look at"""
    x, y = ['var', 'x'], ['var', 'y']
    divs = [['/', x, N(0.0)], ['/', x, y], ['/', N(1.0), x], ['/', N(0.0), N(0.0)]]

    def wraps(d):
        return [['neg', d], ['abs', d], ['min', [d, y]], ['max', [y, d]], ['*', d, y], ['*', N(2.0), d], ['+', d, N(1.0)],
                ['-', N(1.0), d], ['-', d, d], ['not', d], ['and', [d, x]], ['or', [x, d]]]
    out = []
    for d in divs:
        for w in wraps(d):
            out += above(w, [x, N(0.0), N(1.0)])
    for d in divs[:2] if t == 'quick' else divs:
        for w in wraps(d):
            for w2 in wraps(w):
                out += above(w2, [N(0.0), N(1.0)])
    return out


def family_a(t, sd):
    L = leaves(0 if t == 'quick' else 1)
    d1 = depth1(L)
    trees = list(L) + d1
    sib = [['var', 'x'], N(0.0), N(1.0)] if t == 'quick' else [['var', 'x'], N(0.0), N(1.0), N(2.0), ['var', 'y']]
    inner = d1 if t == 'thorough' else [e for i, e in enumerate(d1) if inner_keep(e)]
    for e in inner:
        trees += above(e, sib)
    trees += carriers(t)
    if t == 'thorough':
        g = gen.RandGen(1000 + sd, consts=[0, 1, 2, -1, 0.5, 3], illtyped=0.3)
        vs = [('x', gen.D('Boolean')), ('y', gen.D('Real', 0, 1))]
        for _ in range(20000):
            trees.append(g.gen_num(3, vs))
    return trees


def inner_keep(e):
    """quick tier: inner depth-1 trees use at most one constant operand kind per position (x,y,0,1,2 kept; -0.0, 0.5 only at depth<=1)"""
    bad = ("'-0.0'", "'0.5'")   # -1.0 stays: constant folds seeded with 0 or 1 only show on negative constants
    s = str(e)
    if any(b in s for b in bad):
        return False
    if e[0] in NARY and len(e[1]) == 3:
        return len({str(o) for o in e[1]}) >= 2 and "'2.0'" not in s
    return True


REWRITES = ['s', 'f', 'fs', 'ss', 'ff']


def judge_a(tree, out):
    res = {'fails': [], 'q': 0, 'unknown': [], 'status': 'ok'}
    if out.get('panic') or out.get('crash'):
        res['fails'].append({'ob': 'rewrite-panic', 'rewrite': '*', 'point': None})
        return res
    names = sem.variables(tree, [])
    for k in REWRITES:
        for v in sem.variables(out[k], []):
            if v not in names:
                names.append(v)
    env = sem.mk_env(names or ['x'])
    a = sem.val(tree, env)
    # typing precondition of the language: an operand of a logic operator is Boolean-valued; everything else
    # (variables outside logic positions, numeric constants inside them) is unrestricted
    typed = []
    for o in logic_operands(tree, []):
        ov = sem.val(o, env)
        typed.append(z3.Or(ov == 0, ov == 1))
    da = z3.And([sem.defined(tree, env)] + typed)
    base = {'s': tree, 'f': tree, 'fs': tree, 'ss': out['s'], 'ff': out['f']}
    mg = sem.Q(Fraction(1, 10 ** 9) * (1 + sum(abs(Fraction(c)) for c in sem.constants(tree) if c == c and abs(c) != float('inf'))))
    # idempotence as a structural identity (evaluated, not solver-decided): simplify(simplify(e)) is simplify(e)
    if str(out['ss']) != str(out['s']):
        res['fails'].append({'ob': 'simplify-not-idempotent', 'rewrite': 'ss', 'once': out['s'], 'twice': out['ss'], 'point': None})
    for k in REWRITES:
        e2 = out[k]
        src = base[k]
        if k in ('ss', 'ff') and str(src) == str(e2):
            continue   # second application changed nothing: already covered
        if k in ('s', 'f', 'fs') and str(e2) == str(tree):
            continue
        a0 = sem.val(src, env) if k in ('ss', 'ff') else a
        d0 = z3.And([sem.defined(src, env)] + typed) if k in ('ss', 'ff') else da
        b = sem.val(e2, env)
        db = sem.defined(e2, env)
        # constant folding happens in f64 (1/(1+2) becomes 0.333..3): a RELATIVE error, so the margin scales with the value
        mag = z3.If(a0 >= 0, a0, -a0)
        differs = z3.Or(a0 - b > mg * (1 + mag), b - a0 > mg * (1 + mag))
        v, pt, _ = zq.query([d0, z3.Or(z3.Not(db), differs)], timeout_ms=QT, want_vars=env)
        res['q'] += 1
        if v == 'unknown':
            res['unknown'].append(k + ':value')
        if v == 'sat':
            # does it also differ when the variables are 0/1 ?
            v01, _, _ = zq.query([d0, z3.Or(z3.Not(db), differs)] + [z3.Or(t == 0, t == 1) for t in env.values()], timeout_ms=QT)
            res['q'] += 1
            res['fails'].append({'ob': 'value-changed', 'rewrite': k, 'from': src, 'to': e2, 'also_on_01': v01 == 'sat', 'cause': cause_of(src, e2, v01 == 'sat'), 'point': zq.point_json(pt)})
        v, pt, _ = zq.query([z3.Not(sem.defined(src, env)), db] + typed, timeout_ms=QT, want_vars=env)
        res['q'] += 1
        if v == 'unknown':
            res['unknown'].append(k + ':def')
        if v == 'sat':
            res['fails'].append({'ob': 'division-erased', 'rewrite': k, 'from': src, 'to': e2, 'cause': 'division-erased', 'point': zq.point_json(pt)})
    return res


LOGIC = ('and', 'or', 'not', 'unot', 'xor', 'implies', 'iff', 'band', 'bor', 'bxor', 'bimplies', 'biff')


def logic_operands(e, acc):
    """non-constant, non-logic operands of logic operators: the language types them as Boolean
    (type checker: `operator "and" cannot be applied to "Number"`; linearizer: NonBinaryLogicOperand),
    so the obligations assume they take a 0/1 value; numeric CONSTANTS stay unrestricted"""
    if e[0] in LOGIC:
        for c in sem.children(e):
            if c[0] != 'num' and c[0] not in LOGIC:
                acc.append(c)
    for c in sem.children(e):
        logic_operands(c, acc)
    return acc


def cause_of(src, e2, on01):
    if on01:
        return 'other'
    return 'non01-operand-escapes-logic-operator'


def work_a(chunk):
    zq.reset_stats()
    outs = run_driver([{'cmd': 'rewrite', 'exp': it['tree']} for it in chunk])
    results = []
    for it, o in zip(chunk, outs):
        try:
            r = judge_a(it['tree'], o)
            if it['idx'] % 50 == 0 and not o.get('panic'):
                # must-fail twin: the real rewrite with one constant nudged
                m = dict(o)
                m['s'] = ['+', o['s'], N(1.0)]
                r2 = judge_a(it['tree'], m)
                r['twin'] = (1, 1 if any(f['rewrite'] == 's' for f in r2['fails']) else 0)
        except Exception:
            import traceback
            r = {'fails': [], 'q': 0, 'unknown': [], 'status': 'fault', 'fault': traceback.format_exc()[-600:]}
        r['idx'] = it['idx']
        results.append(r)
    return [{'results': results, 'stats': dict(zq.STATS)}]


def replay_a(tree, fail):
    o = run_driver([{'cmd': 'rewrite', 'exp': tree}])[0]
    r = judge_a(tree, o)
    same = [f for f in r['fails'] if f['ob'] == fail['ob'] and f['rewrite'] == fail['rewrite']]
    if not same:
        return False, {'why': 'not reproduced'}
    f = same[0]
    if f['ob'] == 'simplify-not-idempotent':
        # reproduced by the second run of the real rewriter
        return True, {'original_text': o.get('text'), 'once': f['once'], 'twice': f['twice']}
    pt = zq.point_from_json(f['point']) if f.get('point') else {}
    d = {'original_text': o.get('text')}

    def ev(e):
        try:
            return str(sem.pyval(e, pt))
        except ZeroDivisionError:
            return 'undefined'
    d['value_before'] = ev(f['from'])
    d['value_after'] = ev(f['to'])
    if 'undefined' in (d['value_before'], d['value_after']):
        return d['value_before'] != d['value_after'], d
    a, b = Fraction(d['value_before']), Fraction(d['value_after'])
    return abs(a - b) > Fraction(1, 10 ** 9) * (1 + abs(a)), d


# ------------------------------------------------------------------ (b) constant re-spellings through the text front door
def respellings(c, v):
    """texts that all denote c*v"""
    c = float(c)
    s = num_text(abs(c))
    neg = c < 0
    out = []
    out.append(('literal*', ('-' if neg else '') + s + ' * ' + v))
    out.append(('*literal', v + ' * ' + ('(-' + s + ')' if neg else s)))
    out.append(('implicit', ('-' if neg else '') + s + v))
    out.append(('difference', '(0 ' + ('- ' if neg else '+ ') + s + ') * ' + v))
    out.append(('sum', '(' + num_text(c / 2) + ' + ' + num_text(c / 2) + ') * ' + v if not neg else '(0 - ' + num_text(abs(c) / 2) + ' - ' + num_text(abs(c) / 2) + ') * ' + v))
    out.append(('named', 'k * ' + v))
    out.append(('quotient', v + ' / ' + ('(-' if neg else '') + num_text(1 / abs(c)) + (')' if neg else '')))
    out.append(('neg-wrapped', ('-(' + s + ' * ' + v + ')') if neg else '-(-' + s + ' * ' + v + ')'))
    return out


def num_text(x):
    s = repr(float(x))
    return s[:-2] if s.endswith('.0') else s


def family_b(t, sd):
    """models whose shape makes bound inference matter: abs/min/max over a variable bounded only by a scaled row"""
    items = []
    coefs = [2, -2, 0.5, -0.5, 4, -1] if t == 'quick' else [2, -2, 0.5, -0.5, 4, -4, -1, 1.5, -1.5, 3]
    shapes = []
    for objdir in ('min', 'max'):
        for obj in ('abs{x}', 'x', 'max{x, 0}', 'min{x, 1}'):
            shapes.append((objdir, obj))
    decls = ['x as Real', 'x as Real(-10, 10)', 'x as IntegerRange(-5, 5)', 'x as NonNegativeReal']
    for c in coefs:
        for cmp_ in ('<=', '>=', '='):
            for rhs in (4, -2):
                for (objdir, obj) in shapes:
                    for di, decl in enumerate(decls):
                        if t == 'quick' and (di + int(abs(c) * 2) + rhs) % 2:
                            continue
                        other = 'x <= 3' if (c > 0) == (cmp_ == '>=') else 'x >= -3'
                        if cmp_ == '=':
                            other = 'x >= -100'
                        texts = []
                        for name, sp in respellings(c, 'x'):
                            where = ('\nwhere\n    let k = %s' % num_text(c)) if name == 'named' else ''
                            texts.append((name, '%s %s\ns.t.\n    %s %s %s\n    %s%s\ndefine\n    %s' % (objdir, obj, sp, cmp_, num_text(rhs), other, where, decl)))
                        items.append({'c': c, 'cmp': cmp_, 'texts': texts})
    return items


def work_b(chunk):
    zq.reset_stats()
    jobs = []
    for it in chunk:
        for name, txt in it['texts']:
            jobs.append({'cmd': 'text', 'src': txt, 'want': []})
    outs = run_driver(jobs)
    results = []
    k = 0
    for it in chunk:
        n = len(it['texts'])
        os_ = outs[k:k + n]
        k += n
        res = {'idx': it['idx'], 'fails': [], 'q': 0, 'unknown': [], 'status': 'ok', 'pairs': 0}
        try:
            comp = []
            for (name, txt), o in zip(it['texts'], os_):
                m = o.get('model', {})
                if m.get('panic'):
                    comp.append((name, 'panic', None))
                elif 'err' in m:
                    comp.append((name, 'rejected:transform', m['err'][:100]))
                elif 'err' in m.get('lin', {}):
                    comp.append((name, 'rejected:' + m['lin'].get('kind', '?'), m['lin']['err'][:100]))
                else:
                    comp.append((name, 'ok', m['lin']['ok']))
            ref = comp[0]
            for c in comp[1:]:
                res['pairs'] += 1
                if (ref[1] == 'ok') != (c[1] == 'ok'):
                    res['fails'].append({'ob': 'one-spelling-rejected', 'a': [ref[0], ref[1]], 'b': [c[0], c[1]], 'reason': c[2] if c[1] != 'ok' else ref[2], 'point': None})
                elif ref[1] == 'ok':
                    bad = equivalent(ref[2], c[2], res)
                    if bad:
                        res['fails'].append({'ob': 'spellings-not-equivalent', 'a': ref[0], 'b': c[0], 'direction': bad[0], 'point': bad[1]})
        except Exception:
            import traceback
            res['status'] = 'fault'
            res['fault'] = traceback.format_exc()[-600:]
        results.append(res)
    return [{'results': results, 'stats': dict(zq.STATS)}]


EPS = Fraction(1, 10 ** 7)


def equivalent(LA, LB, res, declared=None):
    """projection equality of two compiled linear models on their common declared variables (DESIGN 2.5).
    returns None or (direction, point)"""
    na, nb = lin.names(LA), lin.names(LB)
    common_ = [n for n in na if n in nb and not n.startswith('$')]
    if declared is not None:
        common_ = [n for n in common_ if n in declared]
    envA = {n: z3.Real('c_' + n) for n in common_}
    envB = dict(envA)
    auxA, auxB = [], []
    for n in na:
        if n not in envA:
            envA[n] = z3.Real('A_' + n)
            auxA.append(envA[n])
    for n in nb:
        if n not in envB:
            envB[n] = z3.Real('B_' + n)
            auxB.append(envB[n])
    A, B = lin.lin_c(LA, envA), lin.lin_c(LB, envB)
    Ae, Be = lin.lin_c(LA, envA, EPS), lin.lin_c(LB, envB, EPS)
    gA, gB = lin.lin_obj(LA, envA), lin.lin_obj(LB, envB)
    if LA['dir'] != LB['dir']:
        return ('direction', None)
    m = sem.Q(EPS * (1 + sum(abs(Fraction(float(c))) for c in LA['obj']) + abs(Fraction(float(LA['off'])))))
    # objective: what matters is the BEST value over the auxiliary extensions (one-sided lowerings leave
    # the auxiliary free to be worse), so "the other model can do at least as well at the same x"
    d = LA['dir']
    b_as_good = (gB <= gA + m) if d == 'min' else ((gB >= gA - m) if d == 'max' else z3.BoolVal(True))
    a_as_good = (gA <= gB + m) if d == 'min' else ((gA >= gB - m) if d == 'max' else z3.BoolVal(True))
    xs = {n: envA[n] for n in common_}
    body = z3.Not(z3.And(Be, b_as_good))
    v, pt, _ = zq.query([A, z3.ForAll(auxB, body) if auxB else body], timeout_ms=QT, want_vars=xs)
    res['q'] += 1
    if v == 'unknown':
        res['unknown'].append('equiv')
    if v == 'sat':
        return ('A-not-in-B', zq.point_json(pt))
    body = z3.Not(z3.And(Ae, a_as_good))
    v, pt, _ = zq.query([B, z3.ForAll(auxA, body) if auxA else body], timeout_ms=QT, want_vars=xs)
    res['q'] += 1
    if v == 'unknown':
        res['unknown'].append('equiv')
    if v == 'sat':
        return ('B-not-in-A', zq.point_json(pt))
    return None


def replay_b(it, fail):
    r = work_b([dict(it, idx=0)])[0]['results'][0]
    same = [f for f in r['fails'] if f['ob'] == fail['ob'] and f.get('b') == fail.get('b')]
    if not same:
        return False, {'why': 'not reproduced'}
    return True, {'texts': dict(it['texts']), 'failure': same[0]}


# ------------------------------------------------------------------ main
def main(prop='C10'):
    t, sd = tier(), seed()
    rep = Report('C10')
    build_s = common.build_driver()
    t0 = time.time()
    trees = family_a(t, sd)
    lim = os.environ.get('VERIF_LIMIT')
    if lim:
        trees = trees[::max(1, len(trees) // int(lim))]
    items = [{'idx': i, 'tree': e} for i, e in enumerate(trees)]
    parts = parallel(work_a, items)
    stats = dict.fromkeys(zq.STATS, 0)
    ra = []
    for p in parts:
        ra += p['results']
        for k in stats:
            stats[k] += p['stats'][k]
    tw = [0, 0]
    nfail = confirmed = 0
    classes = {}
    todo = []
    for r in ra:
        if 'twin' in r:
            tw[0] += r['twin'][0]
            tw[1] += r['twin'][1]
        if r['status'] == 'fault':
            rep.broken.append(r.get('fault'))
        for u in r['unknown']:
            rep.inconclusive.append({'tree': items[r['idx']]['tree'], 'obligation': u})
        for f in r['fails']:
            todo.append((items[r['idx']]['tree'], f))
    replayed = parallel(replay_a_work, todo, chunk=50) if todo else []
    for (tree, f), (ok, detail) in zip(todo, replayed):
        nfail += 1
        sig = {'stage': 'rewrite', 'obligation': f['ob'], 'rewrite': f['rewrite'], 'cause': f.get('cause'), 'tree': canon(tree)}
        if not ok:
            rep.broken.append({'why': 'did not reproduce', 'sig': sig, 'detail': detail})
            continue
        confirmed += 1
        key = '%s/%s' % (f['ob'], f.get('cause'))
        classes[key] = classes.get(key, 0) + 1
        rep.violation(sig, {'property': 'C10', 'part': 'a', 'tree': tree, 'obligation': f['ob'], 'failure': f, 'confirmation': detail})
    # part (b)
    itb = family_b(t, sd)
    if lim:
        itb = itb[::max(1, len(itb) // max(1, int(lim) // 10))]
    for i, it in enumerate(itb):
        it['idx'] = i
    partsb = parallel(work_b, itb, chunk=10)
    rb = []
    for p in partsb:
        rb += p['results']
        for k in stats:
            stats[k] += p['stats'][k]
    pairs = 0
    for r in rb:
        pairs += r.get('pairs', 0)
        if r['status'] == 'fault':
            rep.broken.append(r.get('fault'))
        for f in r['fails']:
            nfail += 1
            it = itb[r['idx']]
            ok, detail = replay_b(it, f)
            sig = {'stage': 'respelling', 'obligation': f['ob'], 'spelling': f['b'] if isinstance(f['b'], str) else f['b'][0], 'verdicts': None if isinstance(f['b'], str) else [f['a'][1], f['b'][1]], 'model': canon(it['texts'][0][1])}
            if not ok:
                rep.broken.append({'why': 'did not reproduce', 'sig': sig})
                continue
            confirmed += 1
            key = '%s/%s' % (f['ob'], sig['spelling'])
            classes[key] = classes.get(key, 0) + 1
            rep.violation(sig, {'property': 'C10', 'part': 'b', 'texts': it['texts'], 'obligation': f['ob'], 'failure': f, 'confirmation': detail})
    if tw[0] > 0 and tw[1] == 0:
        rep.broken.append({'why': 'no must-fail twin detected', 'twins': tw})
    if stats['queries'] and stats['unknown'] > 0.01 * stats['queries']:
        rep.broken.append({'why': 'more than 1% inconclusive', 'unknown': stats['unknown']})
    evidence = {
        'level': 'translation_validation', 'tier': t, 'seed': sd,
        'coverage': {
            'programs': len(items) + len(itb), 'trees': len(items), 'respelling_models': len(itb), 'respelling_pairs': pairs,
            'disagreements_checked': stats['queries'], 'queries': stats,
            'obligations_per_program': ['(a) def(e) & (not def(e\') | [[e]] != [[e\']]) unsat for e\' in simplify, flatten, flatten.simplify, simplify.simplify, flatten.flatten',
                                        '(a) not def(e) & def(e\') unsat (a division by zero / by a variable is not rewritten away)',
                                        '(b) all spellings accepted or all rejected; pairwise projection equivalence of the compiled linear models (exists/forall)'],
            'counterexamples_found': nfail, 'counterexamples_confirmed_against_real_code': confirmed, 'confirmed_by_class': classes,
            'must_fail_twins': {'tried': tw[0], 'detected': tw[1]},
            'samples': [items[i]['tree'] for i in range(0, len(items), max(1, len(items) // 5))][:5] + [itb[0]['texts'][:3]] if itb else [],
            'exhaustive': False,
            'family': '(a) every tree of depth<=1 over {x,y,0,1,2,-0.0,0.5}, every operator (incl. binary-spelled logic) above a depth-1 tree with siblings {x,0,1}; every operator above a division (x/0, x/y, 1/x, 0/0) wrapped once or twice in neg, abs, min, max, *, +, -, not, and, or; (b) scaled-row models x 8 spellings of the coefficient',
            'functions_encoded': ['Exp::simplify', 'Exp::flatten', 'RoocParser::parse_and_transform + Linearizer::linearize (b)'],
            'solver': 'z3 %s (NRA for variable denominators)' % z3.get_version_string(), 'driver_build_s': round(build_s, 1), 'check_s': round(time.time() - t0, 1),
            'outside': ['trees deeper than the family'],
            'evaluated_not_solver_decided': ['simplify(simplify(e)) == simplify(e) as a structural identity'],
        },
        'assumptions': ['logic operators read any non-zero operand as true and yield 0/1 (language evaluator semantics)'],
    }
    return rep.finish(evidence)


def replay_a_work(chunk):
    return [replay_a(tree, f) for tree, f in chunk]


def replay_file(prop, path):
    common.build_driver()
    r = json.load(open(path))
    if r['part'] == 'a':
        ok, detail = replay_a(r['tree'], r['failure'])
    else:
        ok, detail = replay_b({'texts': [tuple(x) for x in r['texts']]}, r['failure'])
    print(json.dumps({'reproduces': ok, 'detail': detail}, indent=1, default=str)[:3000])
    if ok:
        print('VIOLATION property=C10 replay=%s' % path)
    return 1 if ok else 0


if __name__ == '__main__':
    sys.exit(main())
