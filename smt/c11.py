"""C11: formatting preserves meaning.

For every text of the family the REAL `RoocParser::format` produces text'; both texts go through
the real `parse_and_transform` (and `linearize`); z3 decides for ALL assignments that the two
models mean the same: objective values equal, every constraint's truth value equal, and the two
compiled linear models have the same projection (c10.equivalent).  Precondition enforced: the
formatted text is accepted whenever the original is.  Evaluated, not solver-decided:
format(text') == text'."""
import itertools, json, os, random, sys, time
from fractions import Fraction
import z3
import common, sem, lin, gen, zq, textgen, c10
from common import run_driver, parallel, Report, tier, seed, canon

QT = 8000
BINOPS = ['+', '-', '*', '/', 'and', 'or', 'xor', 'implies', 'iff']
ARITH = ('+', '-', '*', '/')


def nesting_family():
    """every (parent, child, side) operator triple printed with MINIMAL parentheses, unary operators on
    negative constants and on compound operands, implicit products under division"""
    out = []
    a, b, c = gen.var('a'), gen.var('b'), gen.var('c')
    p, q, r = gen.var('p'), gen.var('q'), gen.var('r')

    def bin_(op, l, rr):
        if op in ('and', 'or'):
            return [op, [l, rr]]
        return [op, l, rr]
    for par, ch in itertools.product(BINOPS, repeat=2):
        for side in ('l', 'r'):
            pa, ca = par in ARITH, ch in ARITH
            if pa and not ca:
                # a logic value used in arithmetic: (p and q) + a
                x, y, z = p, q, a
            elif pa and ca:
                x, y, z = a, b, c
            elif not pa and ca:
                continue  # an arithmetic operand of a logic operator is ill-typed
            else:
                x, y, z = p, q, r
            child = bin_(ch, x, y)
            tree = bin_(par, child, z) if side == 'l' else bin_(par, z, child)
            out.append(tree)
            out.append(['neg', tree] if pa else ['not', tree])
    two = gen.num(2)
    out += [['neg', gen.num(-2)], ['neg', ['neg', a]], ['not', ['not', p]], ['-', a, ['neg', b]], ['-', a, gen.num(-2)], ['*', a, gen.num(-2)],
            ['/', a, ['*', two, b]], ['/', a, ['*', two, gen.num(4)]], ['/', ['*', a, two], gen.num(4)], ['-', a, ['-', b, c]], ['-', ['-', a, b], c],
            ['/', ['/', a, two], gen.num(4)], ['/', a, ['/', two, gen.num(4)]], ['*', two, ['+', a, b]], ['*', ['+', a, b], ['-', a, b]],
            ['-', gen.num(0), ['+', a, b]], ['abs', ['-', a, ['-', b, c]]], ['min', [['-', a, ['+', b, c]], ['neg', ['neg', a]]]],
            ['implies', p, ['implies', q, r]], ['implies', ['implies', p, q], r], ['iff', ['iff', p, q], r], ['iff', p, ['iff', q, r]],
            ['implies', p, ['iff', q, r]], ['iff', ['implies', p, q], r], ['implies', ['iff', p, q], r], ['iff', p, ['implies', q, r]]]
    return out


def is_logic_tree(e):
    return e[0] in ('and', 'or', 'not', 'xor', 'implies', 'iff')


def nesting_items():
    doms = {'a': gen.D('Real', -3, 3), 'b': gen.D('Real', -2, 5), 'c': gen.D('Real', 1, 4), 'p': gen.D('Boolean'), 'q': gen.D('Boolean'), 'r': gen.D('Boolean')}
    items = []
    for i, e in enumerate(nesting_family()):
        nonlinear = has_nonlinear(e)
        for place in ('con', 'obj'):
            if place == 'con':
                cons = [{'assert': e}] if is_logic_tree(e) else [gen.row(e, ('<=', '>=', '=')[i % 3], gen.num(1))]
                m = gen.mk_model('min', ['+', gen.var('a'), gen.var('p')], cons, doms)
            else:
                m = gen.mk_model('max' if i % 2 else 'min', e, [gen.row(['+', gen.var('a'), gen.var('b')], '<=', gen.num(3))], doms)
            for style in ('min', 'alias'):
                items.append({'model': m, 'src': textgen.model_text(m, style), 'fam': 'nesting', 'nonlinear': nonlinear})
    return items


def has_nonlinear(e):
    if e[0] == '*' and sem.variables(e[1]) and sem.variables(e[2]):
        return True
    if e[0] == '/' and sem.variables(e[2]):
        return True
    return any(has_nonlinear(c) for c in sem.children(e))


def meaning_diff(ma, mb, res):
    """compare two dumped models (from the real transformer) for all assignments; returns failure or None"""
    va = [(v[0], v[1]) for v in ma['vars']]
    vb = [(v[0], v[1]) for v in mb['vars']]
    if sorted(map(str, va)) != sorted(map(str, vb)):
        return {'ob': 'declarations-differ', 'a': va, 'b': vb, 'point': None}
    if len(ma['cons']) != len(mb['cons']):
        return {'ob': 'constraint-count-differs', 'point': None}
    if ma['obj']['dir'] != mb['obj']['dir']:
        return {'ob': 'objective-direction-differs', 'point': None}
    env = sem.mk_env([v[0] for v in ma['vars']])
    for n in sem.variables(ma['obj']['e'], []) + sem.variables(mb['obj']['e'], []):
        if n not in env:
            env[n] = z3.Real(n)
    fa, fb = sem.val(ma['obj']['e'], env), sem.val(mb['obj']['e'], env)
    da, db = sem.defined(ma['obj']['e'], env), sem.defined(mb['obj']['e'], env)
    v, pt, _ = zq.query([z3.Or(z3.Xor(da, db), z3.And(da, fa != fb))], timeout_ms=QT, want_vars=env)
    res['q'] += 1
    if v == 'unknown':
        res['unknown'].append('objective')
    if v == 'sat':
        return {'ob': 'objective-means-something-else', 'before': ma['obj']['e'], 'after': mb['obj']['e'], 'point': zq.point_json(pt)}
    for i, (ca, cb) in enumerate(zip(ma['cons'], mb['cons'])):
        if ca.get('name', '') != cb.get('name', ''):
            return {'ob': 'constraint-name-differs', 'index': i, 'point': None}
        ta, tb = sem.con_c(ca, env), sem.con_c(cb, env)
        dfa = z3.And([sem.defined(x, env) for x in ([ca['assert']] if 'assert' in ca else [ca['l'], ca['r']])])
        dfb = z3.And([sem.defined(x, env) for x in ([cb['assert']] if 'assert' in cb else [cb['l'], cb['r']])])
        v, pt, _ = zq.query([z3.Or(z3.Xor(dfa, dfb), z3.And(dfa, z3.Xor(ta, tb)))], timeout_ms=QT, want_vars=env)
        res['q'] += 1
        if v == 'unknown':
            res['unknown'].append('constraint%d' % i)
        if v == 'sat':
            return {'ob': 'constraint-means-something-else', 'index': i, 'before': ca, 'after': cb, 'point': zq.point_json(pt)}
    return None


def judge(it, o1, o2):
    res = {'idx': it['idx'], 'fails': [], 'q': 0, 'unknown': [], 'status': 'ok'}
    m1 = o1.get('model', {})
    if o1.get('crash') or m1.get('panic') or (o1.get('format') or {}).get('panic'):
        res['fails'].append({'ob': 'panic', 'point': None})
        return res
    if 'err' in m1 or 'err' in o1.get('format', {}):
        res['status'] = 'original-rejected'
        return res
    text2 = o1['format']['ok']
    m2 = (o2 or {}).get('model', {})
    if o2 is None or o2.get('crash') or m2.get('panic'):
        res['fails'].append({'ob': 'panic-on-formatted-text', 'formatted': text2, 'point': None})
        return res
    if 'err' in m2:
        res['fails'].append({'ob': 'formatted-text-rejected', 'formatted': text2, 'error': m2['err'][:200], 'point': None})
        return res
    f = meaning_diff(m1['ok'], m2['ok'], res)
    if f:
        f['formatted'] = text2
        res['fails'].append(f)
        return res
    l1, l2 = m1.get('lin', {}), m2.get('lin', {})
    if ('ok' in l1) != ('ok' in l2):
        res['fails'].append({'ob': 'only-one-text-compiles', 'formatted': text2, 'a': l1.get('kind', 'ok'), 'b': l2.get('kind', 'ok'), 'point': None})
    elif 'ok' in l1:
        bad = c10.equivalent(l1['ok'], l2['ok'], res)
        if bad:
            res['fails'].append({'ob': 'compiled-models-differ', 'formatted': text2, 'direction': bad[0], 'point': bad[1]})
    f2 = o2.get('format', {})
    if f2.get('ok') is not None and f2['ok'] != text2:
        res['fails'].append({'ob': 'format-not-idempotent', 'formatted': text2, 'again': f2['ok'], 'point': None})
    return res


def work(chunk):
    zq.reset_stats()
    o1s = run_driver([{'cmd': 'text', 'src': it['src'], 'want': ['format']} for it in chunk])
    idx2, jobs2 = [], []
    for i, o in enumerate(o1s):
        t2 = (o.get('format') or {}).get('ok')
        if isinstance(t2, str):
            idx2.append(i)
            jobs2.append({'cmd': 'text', 'src': t2, 'want': ['format']})
    o2l = run_driver(jobs2)
    o2s = [None] * len(chunk)
    for i, o in zip(idx2, o2l):
        o2s[i] = o
    results = []
    for it, o1, o2 in zip(chunk, o1s, o2s):
        try:
            r = judge(it, o1, o2)
            if it['idx'] % 25 == 0 and o2 is not None and 'ok' in (o2.get('model') or {}) and 'ok' in (o1.get('model') or {}):
                # must-fail twin: the re-parsed model with one constant nudged
                import copy
                o3 = copy.deepcopy(o2)
                o3['model']['ok']['obj']['e'] = ['+', o3['model']['ok']['obj']['e'], gen.num(1)]
                r3 = judge(it, o1, o3)
                r['twin'] = (1, 1 if r3['fails'] else 0)
        except Exception:
            import traceback
            r = {'idx': it['idx'], 'fails': [], 'q': 0, 'unknown': [], 'status': 'fault', 'fault': traceback.format_exc()[-600:]}
        results.append(r)
    return [{'results': results, 'stats': dict(zq.STATS)}]


def family(t, sd):
    import c03
    items = nesting_items()
    base = c03.family(t, sd)
    step = 3 if t == 'quick' else 1
    for it in base[::step]:
        items.append({'model': it['model'], 'src': it['src'], 'fam': 'P'})
    # hand-written surface variety the printer does not produce
    extra = ['min a - (b - c)\ns.t.\n    a / (2 * 4) >= 0\n    a - (b + c) <= 3\ndefine\n    a, b, c as Real(0, 5)',
             'max 2a + 3(b - c)\ns.t.\n    a / 2b <= 3\n    (a)(2)c >= 1\ndefine\n    a, b, c as Real(1, 5)',
             'min -(-2) * a\ns.t.\n    a >= -(-1)\n    cap: a - -1 <= 4\ndefine\n    a as Real(0, 5)',
             'min x\ns.t.\n    !(p && q) || r\n    p -> q -> r\n    p <-> q -> r\n    x >= p + q\ndefine\n    p, q, r as Boolean\n    x as Real(0, 3)',
             'max x\nsubject to\n    c1: x <= k * 2\n    /* comment */ x >= k - (1 - 2) // trailing\nwhere\n    let k = 1.5\ndefine\n    x as NonNegativeReal(0, 9)',
             'solve\ns.t.\n    abs{ a - (b - 1) } <= 2\n    min{ a, b - (a - 1) } >= 0\ndefine\n    a, b as IntegerRange(-3, 3)']
    # numeric literals in every position a number can stand: many decimals, tiny, large, near-integers
    lits = ['1.23456789', '0.0000004', '0.99999999', '123456.789012', '3.000000001', '0.1', '1000000', '2.5', '0.30000000000000004', '12345678.5']
    for i, a in enumerate(lits):
        b = lits[(i + 3) % len(lits)]
        extra.append('min %s * x + y\ns.t.\n    %s * x + y >= %s\n    x - y <= k\nwhere\n    let k = %s\ndefine\n    x as Real(0, %s)\n    y as NonNegativeReal(0, 50)' % (a, b, a, b, '%s' % (float(a) + 100)))
        extra.append('max x\ns.t.\n    c%d: x / %s <= %s\n    abs{ x - %s } <= min{ %s, 9 }\ndefine\n    x as Real(-%s, 1000000)' % (i, a, b, a, b, b))
    # the sections around the expressions: where-block values of every literal kind (arrays of one and of mixed element
    # types, nested arrays, strings, booleans, weighted graphs) and every declaration form (one bound, two bounds,
    # expression bounds, several names sharing a type, quantified declarations)
    extra += ['min sum(e in w) { e * x }\ns.t.\n    x >= 1\nwhere\n    let w = [1, 2.5, 3]\ndefine\n    x as Real(2)',
              'max x + y\ns.t.\n    x + y <= m[1][0] + len(names)\nwhere\n    let m = [[1.5, 2.5], [3.5, 4.5]]\n    let names = ["a", "b c"]\n    let flag = true\ndefine\n    x as NonNegativeReal(1)\n    y as Real(-1, k)\nwhere\n    let k = 2' if False else
              'max x + y\ns.t.\n    x + y <= m[1][0] + len(names)\nwhere\n    let m = [[1.5, 2.5], [3.5, 4.5]]\n    let names = ["a", "b c"]\n    let flag = true\n    let k = 2\ndefine\n    x as NonNegativeReal(1)\n    y as Real(-1, k)',
              'min x_0 + x_1 + z\ns.t.\n    x_i >= lo[i] for i in 0..2\n    z >= 0.5\nwhere\n    let lo = [0.5, 1.5]\ndefine\n    x_i as Real(lo[i]) for i in 0..2\n    z as NonNegativeReal(0.25, 10)',
              'min a + b + c\ns.t.\n    a + b + c >= 3\ndefine\n    a, b as Real(1)\n    c as NonNegativeReal(0.5)',
              'max a\ns.t.\n    a <= sum((u, v, w) in edges(G)) { w }\nwhere\n    let G = Graph {\n        A -> [B: 2.5, C: 1],\n        B -> [C],\n        C\n    }\ndefine\n    a as IntegerRange(0 - 2, 2 * 5)']
    # strings with escapes, builtin calls that have a literal spelling in iterator position only (range), an index
    # variable whose own name starts with an underscore
    extra += ['min x\ns.t.\n    x >= len(names)\nwhere\n    let names = ["a\\"b", "c"]\ndefine\n    x as Real(0, 9)',
              'min x\ns.t.\n    x >= len(range(0, 3, true))\n    sum(i in range(0, 2, false)) { x } <= 9\ndefine\n    x as Real(0, 9)',
              'min x_{_a}\ns.t.\n    x_{_a} >= 1\nwhere\n    let _a = 2\ndefine\n    x_{_a} as Real(0, 9)']
    # compound-variable subscripts that are not plain names or numbers: array access, function call, expression
    extra += ['min sum(i in 0..2) { x_{pick[i]} }\ns.t.\n    x_{len(pick)} >= 1\n    x_{pick[0] + 2} <= 5\nwhere\n    let pick = [1, 2]\ndefine\n    x_i as Real(0, 9) for i in 0..4',
              'max sum((e, i) in enumerate(w)) { x_{i}_{w[i]} }\ns.t.\n    x_{i}_{w[i]} <= e for (e, i) in enumerate(w)\nwhere\n    let w = [3, 5]\ndefine\n    x_i_j as Real(0, 9) for i in 0..2, j in 3..=5']
    # graph literals: weights with many decimals and tiny weights (the weight is a number of the model)
    extra += ['max a\ns.t.\n    a <= w for (u, v, w) in edges(G)\nwhere\n    let G = Graph {\n        A -> [B: 1.2345678, C: 0.0000004],\n        B -> [C: 12345.678901]\n    }\ndefine\n    a as Real(-5, 50000)',
              'min sum((u, v, w) in edges(G)) { w * x_u }\ns.t.\n    sum(u in nodes(G)) { x_u } >= 1\nwhere\n    let G = Graph {\n        A -> [B: 0.30000000000000004, C],\n        B -> [A: 2],\n        C\n    }\ndefine\n    x_u as Boolean for u in nodes(G)']
    # strict comparisons, on integer / Boolean operands (lowered one unit further in) and on real ones (kept strict)
    extra += ['min x + y\ns.t.\n    x > -1.5\n    y < 3\n    c: x + y > 0.5\n    p < q\ndefine\n    x as IntegerRange(-4, 4)\n    y as Real(-2, 5)\n    p, q as Boolean',
              'max a - b\ns.t.\n    a - (b - 1) < 2\n    -(a) > -3\n    abs{ a - b } < 2\ndefine\n    a, b as IntegerRange(-3, 3)']
    # iteration scopes with every binder shape - one name, a one-name tuple (binds the FIRST component, not the element),
    # two- and three-name tuples, `_` placeholders - over ranges (both kinds), arrays, matrices, enumerate, graph nodes
    # and edges, in blocks, quantified constraints and quantified declarations
    G = 'let G = Graph {\n        A -> [B: 10, C],\n        B -> [A, C: 2],\n        C -> [A, B]\n    }'
    binders = [
        ('sum((u) in edges(G)) { x_u } <= 2', G, 'x_u as Boolean for u in nodes(G)'),
        ('sum((u, v) in edges(G)) { x_u + x_v } <= 5', G, 'x_u as Boolean for u in nodes(G)'),
        ('sum((u, v, c) in edges(G)) { x_u * c + x_v } <= 40', G, 'x_u as Boolean for u in nodes(G)'),
        ('sum((_, v) in edges(G)) { x_v } <= 5', G, 'x_u as Boolean for u in nodes(G)'),
        ('x_u + x_v <= 1 for (u, v) in edges(G)', G, 'x_u as Boolean for u in nodes(G)'),
        ('x_u >= 0 for (u) in edges(G)', G, 'x_u as Boolean for u in nodes(G)'),
        ('sum((r) in m) { r * y } <= 9', 'let m = [[1, 2], [3, 4]]', 'y as Real(0, 5)'),
        ('sum((a, b) in m) { a * y + b } <= 30', 'let m = [[1, 2], [3, 4]]', 'y as Real(0, 5)'),
        ('sum(r in m) { sum(e in r) { e * y } } <= 30', 'let m = [[1, 2], [3, 4]]', 'y as Real(0, 5)'),
        ('sum((e, i) in enumerate(w)) { e * z_i } <= 7', 'let w = [2, 3, 5]', 'z_i as Boolean for i in 0..len(w)'),
        ('sum(i in 0..=2) { z_i } >= 1', 'let w = [2, 3, 5]', 'z_i as Boolean for i in 0..len(w)'),
        ('z_i + z_j <= 1 for i in 0..3, j in 0..3', 'let w = [2, 3, 5]', 'z_i as Boolean for i in 0..len(w)'),
        ('max(i in 0..3) { z_i * w[i] } <= 4', 'let w = [2, 3, 5]', 'z_i as Boolean for i in 0..len(w)'),
        ('min((e, i) in enumerate(w)) { e - z_i } >= 1', 'let w = [2, 3, 5]', 'z_i as Boolean for i in 0..len(w)'),
    ]
    for body, where, dom in binders:
        extra.append('min 1\ns.t.\n    %s\nwhere\n    %s\ndefine\n    %s' % (body, where, dom))
        extra.append('solve\ns.t.\n    named: %s\nwhere\n    %s\ndefine\n    %s' % (body, where, dom))
    for s in extra:
        items.append({'model': None, 'src': s, 'fam': 'hand'})
    # programs found in the repository's own tests / examples / docs: iterations, blocks, arrays, graphs,
    # compound and escaped names, every declaration form the maintainers exercise
    import corpus
    for pr in corpus.programs():
        items.append({'model': None, 'src': pr['src'], 'fam': 'corpus'})
    lim = os.environ.get('VERIF_LIMIT')
    if lim:
        items = items[::max(1, len(items) // int(lim))]
    for i, it in enumerate(items):
        it['idx'] = i
    return items


def replay_fail(it, fail):
    r = work([dict(it, idx=1)])[0]['results'][0]
    same = [f for f in r['fails'] if f['ob'] == fail['ob']]
    if not same:
        return False, {'why': 'not reproduced'}
    f = same[0]
    d = {'source': it['src'], 'formatted': f.get('formatted')}
    if f.get('point') and 'before' in f:
        pt = zq.point_from_json(f['point'])

        def ev(e):
            try:
                return str(sem.pyval(e, pt))
            except ZeroDivisionError:
                return 'undefined'
        if 'assert' in f['before'] or 'l' in f['before']:
            ca, cb = f['before'], f['after']
            d['truth_before'] = safe_con(ca, pt)
            d['truth_after'] = safe_con(cb, pt)
            return d['truth_before'] != d['truth_after'], d
        d['value_before'], d['value_after'] = ev(f['before']), ev(f['after'])
        return d['value_before'] != d['value_after'], d
    return True, d


def safe_con(c, pt):
    try:
        return str(sem.py_con(c, pt))
    except ZeroDivisionError:
        return 'undefined'


def main(prop='C11'):
    t, sd = tier(), seed()
    rep = Report('C11')
    build_s = common.build_driver()
    items = family(t, sd)
    t0 = time.time()
    parts = parallel(work, items, chunk=40)
    stats = dict.fromkeys(zq.STATS, 0)
    results = []
    for p in parts:
        results += p['results']
        for k in stats:
            stats[k] += p['stats'][k]
    by_status, tw, nfail, confirmed, classes = {}, [0, 0], 0, 0, {}
    for r in results:
        by_status[r['status']] = by_status.get(r['status'], 0) + 1
        it = items[r['idx']]
        if 'twin' in r:
            tw[0] += r['twin'][0]
            tw[1] += r['twin'][1]
        if r['status'] == 'fault':
            rep.broken.append(r.get('fault'))
        for u in r['unknown']:
            rep.inconclusive.append({'src': it['src'], 'obligation': u})
        for f in r['fails']:
            nfail += 1
            ok, detail = replay_fail(it, f)
            sig = {'stage': 'format', 'obligation': f['ob'], 'source': it['src']}
            if not ok:
                rep.broken.append({'why': 'did not reproduce', 'sig': sig, 'detail': detail})
                continue
            confirmed += 1
            classes[f['ob']] = classes.get(f['ob'], 0) + 1
            rep.violation(sig, {'property': 'C11', 'source': it['src'], 'obligation': f['ob'], 'failure': f, 'confirmation': detail})
    if tw[0] > 0 and tw[1] == 0:
        rep.broken.append({'why': 'no must-fail twin detected', 'twins': tw})
    evidence = {
        'level': 'translation_validation', 'tier': t, 'seed': sd,
        'coverage': {
            'programs': len(items), 'by_status': by_status, 'by_family': {k: sum(1 for it in items if it['fam'] == k) for k in ('nesting', 'P', 'hand', 'corpus')},
            'disagreements_checked': stats['queries'], 'queries': stats,
            'obligations_per_program': ['formatted text accepted', 'objective value equal for all assignments', 'each constraint truth value equal for all assignments',
                                        'compiled linear models: same projection and best objective (exists/forall)', 'evaluated: format(format(t)) == format(t), declarations and names equal'],
            'counterexamples_found': nfail, 'counterexamples_confirmed_against_real_code': confirmed, 'confirmed_by_class': classes,
            'must_fail_twins': {'tried': tw[0], 'detected': tw[1]},
            'samples': [it['src'] for it in items[:: max(1, len(items) // 5)][:5]], 'exhaustive': False,
            'family': 'all (parent, child, side) operator triples with minimal parentheses, unary over negative constants / compound operands, implicit products, P texts (3 spellings), hand-written surface variety',
            'functions_encoded': ['RoocParser::format (PreModel Display)', 'RoocParser::parse_and_transform', 'Linearizer::linearize'],
            'solver': 'z3 %s' % z3.get_version_string(), 'driver_build_s': round(build_s, 1), 'check_s': round(time.time() - t0, 1),
            'outside': ['blocks with iteration, data declarations beyond scalar where-constants, declaration forms beyond those the family contains'],
        },
        'assumptions': ['the model dump of the real transformer is compared with itself before/after formatting; sem.py gives trees their value'],
    }
    return rep.finish(evidence)


def replay_file(prop, path):
    common.build_driver()
    r = json.load(open(path))
    ok, detail = replay_fail({'src': r['source']}, r['failure'])
    print(json.dumps({'reproduces': ok, 'detail': detail}, indent=1, default=str)[:3000])
    if ok:
        print('VIOLATION property=C11 replay=%s' % path)
    return 1 if ok else 0


if __name__ == '__main__':
    sys.exit(main())
