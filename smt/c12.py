"""C12: compiled output is itself a valid program with the same meaning.

For every compiled `Model` and `LinearModel` of the family the REAL `to_string()` rendering goes
back through the real parser + type checker + linearizer; z3 decides (exists/forall) that the
re-compiled linear model has the same projection on the original's variables and the same best
objective for ALL assignments.  Precondition enforced: the rendering parses, type-checks and
compiles.  Not claimed: row-for-row identity, the render-compile-render fixpoint."""
import json, os, random, sys, time
from fractions import Fraction
import z3
import common, sem, lin, gen, zq, c10
from common import run_driver, parallel, Report, tier, seed, canon

QT = 8000


def stage1_jobs(chunk):
    jobs = []
    for it in chunk:
        if 'model' in it:
            jobs.append({'cmd': 'compile', 'model': it['model'], 'want': ['model_text', 'lin_text']})
        elif 'src' in it:
            jobs.append({'cmd': 'text', 'src': it['src'], 'want': ['model_text', 'lin_text', 'type_check']})
        else:
            jobs.append({'cmd': 'lm', 'lm': it['lm'], 'ops': ['text']})
    return jobs


def judge_render(kind, L, text, o2, declared, res):
    """L: original linear model; o2: driver output for the rendering"""
    m2 = o2.get('model', {})
    if o2.get('crash') or m2.get('panic'):
        res['fails'].append({'ob': 'panic-on-rendering', 'rendering': kind, 'text': text, 'point': None})
        return
    tc = o2.get('type_check', {})
    if 'err' in m2:
        res['fails'].append({'ob': 'rendering-rejected', 'rendering': kind, 'stage': 'parse/transform', 'error': m2['err'][:160], 'text': text, 'point': None})
        return
    if 'err' in tc:
        res['fails'].append({'ob': 'rendering-rejected', 'rendering': kind, 'stage': 'type-check', 'error': str(tc['err'])[:160], 'text': text, 'point': None})
        return
    l2 = m2.get('lin', {})
    if 'ok' not in l2:
        res['fails'].append({'ob': 'rendering-does-not-compile', 'rendering': kind, 'error': l2.get('err', '')[:160], 'kind': l2.get('kind'), 'text': text, 'point': None})
        return
    L2 = l2['ok']
    if lin.nonfinite_entries(L) or lin.nonfinite_entries(L2):
        res['fails'].append({'ob': 'non-finite-constant', 'rendering': kind, 'text': text, 'point': None})
        return
    # a declared variable that occurs in no row / objective of the original may legitimately vanish
    keep = [n for n in declared if n in lin.names(L2)]
    lost = [n for n in declared if n not in lin.names(L2)]
    for n in lost:
        i = lin.names(L).index(n)
        used = float(L['obj'][i]) != 0 or any(float(r['a'][i]) != 0 for r in L['rows'])
        if used:
            res['fails'].append({'ob': 'variable-lost', 'rendering': kind, 'variable': n, 'text': text, 'point': None})
            return
    bad = c10.equivalent(L, L2, res, declared=keep)
    if bad:
        # attribution: do the two models differ only in the ranges the second compilation derived?
        import copy
        L3 = copy.deepcopy(L2)
        od = dict((n, d) for n, d in L['vars'])
        L3['vars'] = [[n, od.get(n, d)] for n, d in L3['vars']]
        cause = 'other'
        if c10.equivalent(L, L3, {'q': 0, 'unknown': []}, declared=keep) is None:
            cause = 'range-derived-on-recompilation-cuts-feasible-points'
        res['fails'].append({'ob': 'recompiled-model-differs', 'rendering': kind, 'direction': bad[0], 'cause': cause, 'ill_conditioned': ill_conditioned(L), 'text': text, 'point': bad[1]})


def ill_conditioned(L):
    """some row mixes coefficients / right-hand side more than 9 orders of magnitude apart"""
    for r in L['rows']:
        a = [abs(float(x)) for x in r['a'] if float(x) != 0]
        b = abs(float(r['b']))
        if a and max(a + [b]) / min(a) >= 1e9:
            return True
    return False


def work(chunk):
    zq.reset_stats()
    o1 = run_driver(stage1_jobs(chunk))
    jobs2, ref = [], []
    for i, (it, o) in enumerate(zip(chunk, o1)):
        if 'src' in it:
            # a program of the repository's own corpus: normalise to the shape of a compiled model item
            mo = o.get('model') or {}
            if 'ok' not in mo or 'ok' not in (o.get('type_check') or {}):
                continue   # not a compiled model of a well-typed program (the corpus contains negative tests)
            it = dict(it, model=mo['ok'])
            o = {'lin': mo.get('lin', {}), 'model_text': mo.get('model_text')}
        if 'model' in it:
            l = o.get('lin', {})
            if 'ok' not in l:
                continue
            L = l['ok']
            src_names = [v[0] for v in it['model']['vars']]
            if isinstance(o.get('model_text'), str):
                jobs2.append({'cmd': 'text', 'src': o['model_text'], 'want': ['type_check']})
                ref.append((i, 'Model', L, o['model_text'], [n for n in src_names if n in lin.names(L)]))
            if isinstance(l.get('lin_text'), str):
                jobs2.append({'cmd': 'text', 'src': l['lin_text'], 'want': ['type_check']})
                ref.append((i, 'LinearModel', L, l['lin_text'], lin.names(L)))
        else:
            if isinstance(o.get('text'), str) and o.get('lm'):
                jobs2.append({'cmd': 'text', 'src': o['text'], 'want': ['type_check']})
                ref.append((i, 'LinearModel', o['lm'], o['text'], lin.names(o['lm'])))
    o2 = run_driver(jobs2)
    results = [{'idx': it['idx'], 'fails': [], 'q': 0, 'unknown': [], 'status': 'ok', 'renderings': 0} for it in chunk]
    for i, it in enumerate(chunk):
        o = o1[i]
        if 'src' in it:
            if 'ok' not in ((o.get('model') or {}).get('lin') or {}) or 'ok' not in (o.get('type_check') or {}):
                results[i]['status'] = 'not-compiled'
        elif 'model' in it and 'ok' not in o.get('lin', {}):
            results[i]['status'] = 'not-compiled'
    for (i, kind, L, text, declared), out in zip(ref, o2):
        res = results[i]
        res['renderings'] += 1
        try:
            judge_render(kind, L, text, out, declared, res)
            if chunk[i]['idx'] % 25 == 0 and 'ok' in (out.get('model') or {}).get('lin', {}):
                import copy
                m = copy.deepcopy(out)
                L2 = m['model']['lin']['ok']
                if L2['rows']:
                    L2['rows'][0]['b'] = repr(float(L2['rows'][0]['b']) + 1.0)
                    r3 = {'fails': [], 'q': 0, 'unknown': []}
                    judge_render(kind, L, text, m, declared, r3)
                    tw = res.setdefault('twin', [0, 0])
                    tw[0] += 1
                    tw[1] += 1 if r3['fails'] else 0
        except Exception:
            import traceback
            res['status'] = 'fault'
            res['fault'] = traceback.format_exc()[-600:]
    return [{'results': results, 'stats': dict(zq.STATS)}]


def family(t, sd):
    items = []
    ms = gen.m1_family(0)[:: (6 if t == 'quick' else 1)]
    # text_mode: no numeric literal in a logic position (a compiled model never has one: the type checker
    # rejects `1 or 0`, so such trees only arise from ill-typed API calls and are outside the property)
    ms += gen.seeded_models(91, 2500 if t == 'quick' else 30000, maxd=3, names=True, text_mode=True)
    if t == 'thorough':
        ms += gen.seeded_models(9100 + sd, 30000, maxd=4, names=True, text_mode=True)
    ms = [m for m in ms if 'avg' not in str(m['model'])]   # avg is surface sugar, not a Model node
    # names a compilation produces from indexed variables: x_{i-1} at i = 0 is x_-1, with several indexes x_-1_-1, p_-1_3
    styles = gen.NAME_STYLES + [{'x': 'x_-1', 'y': 'y_0_-2', 'z': 'z_-1_-1', 'p': 'p_-1_3', 'q': 'q_2_-1_-5'}]
    ms = [dict(m, model=gen.rename_vars(m['model'], styles[i % 4])) if i % 4 else m for i, m in enumerate(ms)]
    import copy as _copy
    for i, m in enumerate(list(ms)):
        if i % 9 == 4:
            # the same model with its first <= / >= row made strict
            mm = _copy.deepcopy(m['model'])
            for c in mm['cons']:
                if c.get('c') in ('<=', '>='):
                    c['c'] = c['c'][0]
                    ms.append(dict(m, model=mm))
                    break
    items += [{'model': m['model']} for m in ms]
    items += [{'model': m['model']} for m in gen.diverging_family()]
    # prefix operators applied to prefix operators in the compiled model (the grammar takes one prefix per operand)
    P, Q = gen.var('p'), gen.var('q')
    bd = {'p': gen.D('Boolean'), 'q': gen.D('Boolean'), 'x': gen.D('Real', -2, 3)}
    for e in (['not', ['not', P]], ['or', [['not', ['not', P]], Q]], ['not', ['not', ['and', [P, Q]]]], ['and', [['not', ['not', P]], ['not', Q]]], ['implies', ['not', ['not', P]], Q]):
        items.append({'model': gen.mk_model('max', ['+', P, Q], [{'assert': e}], dict(bd))})
    for e in (['neg', ['neg', gen.var('x')]], ['-', gen.var('x'), ['neg', ['neg', gen.var('x')]]], ['neg', ['abs', ['neg', gen.var('x')]]]):
        items.append({'model': gen.mk_model('min', e, [gen.row(gen.var('x'), '>=', gen.num(-1))], dict(bd))})
    nf = gen.nested_family()
    items += [{'model': m['model']} for m in nf[::(5 if t == 'quick' else 1)]]
    big = [1e-9, 1e9, -1e-9, 123456.789, 0.1, 1 / 3, -2.5e-7, 7e-5, 1e-5, -1e5]
    ls = gen.l_seeded(92, 1500 if t == 'quick' else 20000, named=True, offsets=True, satisfy=True, probe=('coef', 'rhs', 'obj', 'off'))
    ls += gen.l_seeded(93, 1000 if t == 'quick' else 10000, named=True, offsets=True, coefs=[0, 1, -1, 2.5] + big, rhss=[0, 1, -1] + big)
    # strict rows: the language has < and >, and a compiled linear model keeps them (the solvers refuse them, the text must not lose them)
    ls += gen.l_seeded(94, 600 if t == 'quick' else 6000, named=True, offsets=True, strict=True)
    items += [{'lm': s} for s in ls]
    import corpus
    items += [{'src': pr['src']} for pr in corpus.programs()]
    lim = os.environ.get('VERIF_LIMIT')
    if lim:
        items = items[::max(1, len(items) // int(lim))]
    for i, it in enumerate(items):
        it['idx'] = i
    return items


def replay_fail(it, fail):
    r = work([dict(it, idx=1)])[0]['results'][0]
    same = [f for f in r['fails'] if f['ob'] == fail['ob'] and f['rendering'] == fail['rendering']]
    if not same:
        return False, {'why': 'not reproduced'}
    return True, {'rendering_text': same[0].get('text'), 'failure': {k: v for k, v in same[0].items() if k != 'text'}}


def replay_work(chunk):
    return [replay_fail(it, f) for it, f in chunk]


def main(prop='C12'):
    t, sd = tier(), seed()
    rep = Report('C12')
    build_s = common.build_driver()
    items = family(t, sd)
    t0 = time.time()
    parts = parallel(work, items, chunk=50)
    stats = dict.fromkeys(zq.STATS, 0)
    results = []
    for p in parts:
        results += p['results']
        for k in stats:
            stats[k] += p['stats'][k]
    by_status, tw, renderings, todo = {}, [0, 0], 0, []
    for r in results:
        by_status[r['status']] = by_status.get(r['status'], 0) + 1
        renderings += r.get('renderings', 0)
        it = items[r['idx']]
        if 'twin' in r:
            tw[0] += r['twin'][0]
            tw[1] += r['twin'][1]
        if r['status'] == 'fault':
            rep.broken.append(r.get('fault'))
        for u in r['unknown']:
            rep.inconclusive.append({'item': {k: v for k, v in it.items() if k != 'idx'}, 'obligation': u})
        for f in r['fails']:
            todo.append((it, f))
    replayed = parallel(replay_work, todo, chunk=10) if todo else []
    confirmed, classes = 0, {}
    for (it, f), (ok, detail) in zip(todo, replayed):
        sig = {'stage': 'render-recompile', 'obligation': f['ob'], 'rendering': f['rendering'], 'cause': f.get('cause'), 'ill_conditioned': f.get('ill_conditioned'), 'item': canon({k: v for k, v in it.items() if k != 'idx'})}
        if not ok:
            rep.broken.append({'why': 'did not reproduce', 'sig': sig})
            continue
        confirmed += 1
        key = '%s/%s' % (f['ob'], f['rendering'])
        classes[key] = classes.get(key, 0) + 1
        rep.violation(sig, {'property': 'C12', 'item': {k: v for k, v in it.items() if k != 'idx'}, 'obligation': f['ob'], 'failure': f, 'confirmation': detail})
    if tw[0] > 0 and tw[1] == 0:
        rep.broken.append({'why': 'no must-fail twin detected', 'twins': tw})
    evidence = {
        'level': 'translation_validation', 'tier': t, 'seed': sd,
        'coverage': {
            'programs': len(items), 'renderings_recompiled': renderings, 'by_status': by_status,
            'disagreements_checked': stats['queries'], 'queries': stats,
            'obligations_per_program': ['rendering parses, type-checks and compiles', 'recompiled linear model has the same projection on the original variables and the same best objective (exists/forall, eps margin)',
                                        'a variable may vanish only if it occurs in no row and not in the objective'],
            'counterexamples_found': len(todo), 'counterexamples_confirmed_against_real_code': confirmed, 'confirmed_by_class': classes,
            'must_fail_twins': {'tried': tw[0], 'detected': tw[1]},
            'samples': [{k: v for k, v in it.items() if k != 'idx'} for it in items[:: max(1, len(items) // 4)][:4]], 'exhaustive': False,
            'family': 'Model and LinearModel renderings of M1 (subsampled) + seeded M(3) with names; LinearModel renderings of seeded L(3,3) incl. coefficients 1e-9..1e9, offsets, satisfy',
            'functions_encoded': ['Model::to_string (Exp Display)', 'LinearModel::to_string', 'RoocParser::parse_and_transform / type_check', 'Linearizer::linearize'],
            'solver': 'z3 %s' % z3.get_version_string(), 'driver_build_s': round(build_s, 1), 'check_s': round(time.time() - t0, 1),
            'outside': ['row-for-row identity', 'render-compile-render text fixpoint'],
        },
        'assumptions': ['equivalence is projection equality on the variables the two models have in common (DESIGN 2.5)'],
    }
    return rep.finish(evidence)


def replay_file(prop, path):
    common.build_driver()
    r = json.load(open(path))
    ok, detail = replay_fail(r['item'], r['failure'])
    print(json.dumps({'reproduces': ok, 'detail': detail}, indent=1, default=str)[:3000])
    if ok:
        print('VIOLATION property=C12 replay=%s' % path)
    return 1 if ok else 0


if __name__ == '__main__':
    sys.exit(main())
