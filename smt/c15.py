"""C15: limits and tolerances never turn into wrong answers.

For every MILP member of the family x time limit x MIP gap the real `solve_milp_lp_problem_with`
(and the builder's `Microlp::with_*` wrapper) is run; whatever instant the limit fires, the
outcome must satisfy implications that z3 decides over ALL points: status Optimal => no feasible
point is better by more than the requested gap; Infeasible => the model is unsatisfiable;
a returned point is feasible (exact evaluation); invalid options => error."""
import copy, json, os, sys, time
from fractions import Fraction
import z3
import common, sem, lin, gen, zq, lmcheck
from common import run_driver, parallel, Report, tier, seed, fs, canon

QT = 10000
TOL = Fraction(1, 10 ** 6)
LIMITS = [0, 1, 1000, 1000000, None]
GAPS = [None, '0', '1e-6', '0.5', '1', '10', '-1', 'NaN', 'inf', '-0.0', '-inf', '-1e-9']
INVALID = ('-1', 'NaN', 'inf', '-inf', '-1e-9')


def option_sets(idx, full):
    out = []
    if full:
        for l in LIMITS:
            for g in GAPS:
                out.append({'gap': g, 'limit_ns': l})
        return out
    # quick tier: every limit with no gap, every gap with no limit, and a rotating pair
    for l in LIMITS:
        out.append({'gap': None, 'limit_ns': l})
    for g in GAPS[1:]:
        out.append({'gap': g, 'limit_ns': None})
    # three rotating (limit, gap) pairs: over 40 consecutive models every pair of the grid occurs
    valid = [g for g in GAPS[1:] if g not in INVALID]
    lims = [l for l in LIMITS if l is not None]
    for k in range(3):
        j = idx * 3 + k
        out.append({'gap': valid[j % len(valid)], 'limit_ns': lims[(j // len(valid)) % len(lims)]})
    return out


def op_key(name, arg):
    return '%s:%s' % (name, json.dumps(arg, separators=(',', ':')))


def judge(item, out):
    res = {'idx': item['idx'], 'fails': [], 'q': 0, 'unknown': [], 'status': 'ok', 'outcomes': {}}
    L = out['lm']
    x = lmcheck.lm_env(L)
    LM = lin.lin_c(L, x)
    g = lin.lin_obj(L, x)
    def lookup(name, arg):
        r = out.get(op_key(name, arg))
        if r is None:
            # serde_json orders keys; look the op up tolerant of key order
            for k, v in out.items():
                if k.startswith(name + ':') and json.loads(k[len(name) + 1:]) == arg:
                    r = v
        return r

    def outcome(r):
        if r is None:
            return None
        return 'ok' if r.get('ok') else ('panic' if r.get('panic') else ('hang' if r.get('hang') else 'err:%s' % r.get('kind')))

    # what the same entry point answers with default options: an error verdict (or a hang) that is the same with and
    # without options is not something a limit or tolerance turned the answer into - it is C05's subject (and recorded
    # there); C15 reports a wrong verdict only where the options changed it
    base = outcome(lookup('milp_with', {'gap': None, 'limit_ns': None}))
    res['deferred_to_C05'] = 0
    for name, arg in item['ops']:
        r = lookup(name, arg)
        if r is None:
            res['status'] = 'fault'
            res['fault'] = 'missing op result %s %s' % (name, arg)
            return res
        gap, lim = arg.get('gap'), arg.get('limit_ns')
        tag = {'solver': name, 'gap': gap, 'limit_ns': lim}
        kind = 'ok:' + r.get('status', '?') if r.get('ok') else ('hang' if r.get('hang') else 'err:' + str(r.get('kind')))
        res['outcomes'][kind] = res['outcomes'].get(kind, 0) + 1
        if r.get('panic'):
            res['fails'].append(dict(tag, ob='panic', point=None))
            continue
        is_default = gap is None and lim is None
        if not r.get('ok') and not r.get('panic') and gap not in INVALID and r.get('kind') != 'LimitReached' and (is_default or outcome(r) == base):
            res['deferred_to_C05'] += 1
            continue
        if r.get('hang'):
            res['fails'].append(dict(tag, ob='solver-hang', engine='microlp', has_free_variable=lmcheck.has_free(L), point=None))
            continue
        if gap in INVALID:
            if r.get('ok'):
                res['fails'].append(dict(tag, ob='invalid-option-accepted', point=None))
            continue
        if r.get('ok'):
            vals = {nm: Fraction(float(v)) for nm, v, _ in r['x']}
            if sorted(vals) != sorted(lin.names(L)):
                res['fails'].append(dict(tag, ob='assignment-shape', point=None))
                continue
            bad = lmcheck.row_violations(L, vals, TOL)
            if bad:
                res['fails'].append(dict(tag, ob='returned-point-infeasible', status=r.get('status'), violated=bad, x={k: str(v) for k, v in vals.items()}, point=None))
                continue
            val = Fraction(float(r['value']))
            if L['dir'] != 'solve':
                if abs(lin.py_obj(L, vals) - val) > TOL * 10 * (1 + abs(val)):
                    res['fails'].append(dict(tag, ob='reported-objective', point=None))
                if r.get('status') == 'Optimal' and not item['lm'].get('big'):
                    gq = Fraction(float(gap)) if gap is not None else Fraction(0)
                    m = sem.Q(TOL * (1 + abs(val)) + gq * (abs(val) + abs(Fraction(float(L['off'])))))
                    better = (g < sem.Q(val) - m) if L['dir'] == 'min' else (g > sem.Q(val) + m)
                    v, pt, _ = zq.query([LM, better], timeout_ms=QT, want_vars=x)
                    res['q'] += 1
                    if v == 'unknown':
                        res['unknown'].append('optimal')
                    if v == 'sat':
                        res['fails'].append(dict(tag, ob='labelled-optimal-but-outside-gap', reported=r['value'], point=zq.point_json(pt)))
            continue
        k = r.get('kind')
        if k == 'Infeasible':
            v, pt, _ = zq.query([LM], timeout_ms=QT, want_vars=x)
            res['q'] += 1
            if v == 'sat':
                res['fails'].append(dict(tag, ob='wrong-infeasible', point=zq.point_json(pt)))
        elif k == 'Unbounded':
            v, _, _ = zq.query([LM], timeout_ms=QT)
            v2, _, _ = zq.query(lmcheck.direction_exists(L), timeout_ms=QT) if L['dir'] != 'solve' else ('unsat', None, None)
            res['q'] += 2
            if v != 'sat' or v2 != 'sat':
                res['fails'].append(dict(tag, ob='wrong-unbounded', engine='microlp', has_free_variable=lmcheck.has_free(L), point=None))
        elif k in ('LimitReached',):
            if lim is None:
                res['fails'].append(dict(tag, ob='limit-error-without-limit', point=None))
        else:
            # any other error kind: allowed only as a consequence of a limit; without one it is C05's verdict-kind
            if lim is None:
                res['fails'].append(dict(tag, ob='verdict-kind', kind=k, engine='microlp', msg=(r.get('msg') or '')[:60], has_free_variable=lmcheck.has_free(L), point=None))
    return res


def work(chunk):
    zq.reset_stats()
    jobs = [{'cmd': 'lm', 'lm': it['lm'], 'ops': [[n, a] for n, a in it['ops']]} for it in chunk]
    outs = run_driver(jobs)
    results = []
    tw = [0, 0]
    for k, (it, out) in enumerate(zip(chunk, outs)):
        if 'lm' not in out and out.get('hang'):
            # the whole job ran out of time (every option set of a model on which microlp does not return costs
            # HANG_SECS): run each option set as its own job and merge, so each op is judged on its own outcome
            singles = run_driver([{'cmd': 'lm', 'lm': it['lm'], 'ops': [[n, a]]} for n, a in it['ops']], per_job=8)
            merged = {}
            for (n, a), o in zip(it['ops'], singles):
                if 'lm' in o:
                    merged.update(o)
                else:
                    merged[op_key(n, a)] = {'hang': True} if o.get('hang') else {'panic': True, 'msg': str(o)[:200]}
            if 'lm' in merged:
                outs[k] = out = merged
    for it, out in zip(chunk, outs):
        try:
            if 'lm' not in out:
                results.append({'idx': it['idx'], 'fails': [], 'q': 0, 'unknown': [], 'status': 'fault', 'fault': 'driver gave no result for the job: %s' % str(out)[:300], 'outcomes': {}})
                continue
            results.append(judge(it, out))
            if it['idx'] % 15 == 0:
                # must-fail twin: pretend a limited run returned a worse value labelled Optimal
                for k, r in list(out.items()):
                    if isinstance(r, dict) and r.get('ok') and r.get('status') == 'Optimal' and out['lm']['dir'] != 'solve' and k.startswith('milp_with'):
                        m = copy.deepcopy(out)
                        worse = 2 if out['lm']['dir'] == 'min' else -2
                        m[k]['value'] = fs(float(r['value']) + worse)
                        r2 = judge(it, m)
                        tw[0] += 1
                        tw[1] += 1 if r2['fails'] else 0
                        break
        except Exception:
            import traceback
            results.append({'idx': it['idx'], 'fails': [], 'q': 0, 'unknown': [], 'status': 'fault', 'fault': traceback.format_exc()[-800:], 'outcomes': {}})
    return [{'results': results, 'twins': tw, 'stats': dict(zq.STATS)}]


def knapsacks(seed_, n):
    """larger MILPs on which a limit can fire before / during the search"""
    import random
    r = random.Random(seed_)
    out = []
    for _ in range(n):
        nv = r.randint(4, 7)
        kinds = [r.choice([gen.D('Int', 0, 10), gen.D('Boolean'), gen.D('Int', -2, 5)]) for _ in range(nv)]
        w = [r.choice([3, 5, 7, 2, 9, 4, 6, 1.5]) for _ in range(nv)]
        rows = [(w, '<=', r.choice([23.5, 17, 31, 9.5])), ([1] * nv, '>=', r.choice([2.5, 1, 0]))]
        if r.random() < 0.4:
            rows.append(([r.choice([1, -1, 0, 2]) for _ in range(nv)], r.choice(['<=', '>=', '=']), r.choice([0, 1, 3])))
        obj = [r.choice([4, 6, 9, 2.5, 11, 5, 1]) for _ in range(nv)]
        if r.random() < 0.3:
            # an objective of the order of 1e4 next to unit steps: a relative gap of 1e-4 then separates neighbouring
            # integer solutions, so "optimal" must really mean gap 0 unless a gap was requested
            kinds.append(gen.D('Int', 0, 10))
            for row in rows:
                row[0].append(0)
            obj.append(1000)
            nv += 1
        d = r.choice(['max', 'max', 'min', 'max', 'min', 'solve'])
        if d == 'solve':
            obj = [0] * nv   # satisfiability model: the limit / status mapping has its own path there
        out.append(gen.lm_spec(kinds, rows, obj, d, off=r.choice([0, 0, 1.5])))
    return out


def gap_family():
    """MILPs whose objective is of the order of 1e4 while neighbouring integer solutions differ by 1, with the small
    part of the objective parallel to a row (a degenerate, fractional root relaxation): a search that stops at a
    relative gap of 1e-4 returns 10003 where the optimum is 10004. Unless a gap was requested, Optimal means gap 0."""
    D = gen.D
    out = []
    for (a, b) in ((1, 2), (1, 3), (2, 3), (3, 5), (2, 5)):
        for cap in (4, 5, 7, 8):
            for hi in (3, 4):
                out.append(gen.lm_spec([D('Int', 0, 10), D('Int', 0, hi), D('Int', 0, hi)], [([0, a, b], '<=', cap)], [1000, a, b], 'max'))
                out.append(gen.lm_spec([D('Int', 0, 20), D('Int', 0, hi), D('Int', 0, hi)], [([0, a, b], '>=', cap - 2), ([1, 0, 0], '>=', 10)], [1000, a, b], 'min'))
                out.append(gen.lm_spec([D('Int', 0, 10), D('Int', 0, hi), D('Real', 0, hi)], [([0, a, b], '<=', cap + 0.5)], [1000, a, b], 'max', off=1.5))
    return out


def midsearch_family(t):
    """MILPs large enough (40-60 binaries, 5 knapsack rows, a free continuous variable) that a limit of tens of
    milliseconds fires after the first incumbent and before the proof: the Feasible label, the returned point and the
    reported objective of an interrupted-but-feasible run. (Optimality of a result labelled Optimal is not decided for
    these: only the obligations about the returned point and the label.)"""
    import random
    r = random.Random(77)
    out = []
    for _ in range(6 if t == 'quick' else 30):
        nb = r.randint(40, 60)
        kinds = [gen.D('Boolean')] * nb + [gen.D('Real', '-inf', 'inf')]
        rows = []
        for _k in range(5):
            w = [r.randint(5, 60) for _ in range(nb)] + [0]
            rows.append((w, '<=', sum(w) // 3))
        rows.append(([0] * nb + [1], '>=', -7.5))
        rows.append(([0] * nb + [1], '<=', 3))
        obj = [r.randint(10, 99) for _ in range(nb)] + [r.choice([-2, 2, -1.5])]
        s = gen.lm_spec(kinds, rows, obj, 'max', off=r.choice([0, 1.5]))
        s['big'] = True
        out.append(s)
    return out


def family(t, sd):
    if t == 'quick':
        specs = [s for s in gen.l_seeded(71, 4000, offsets=True, satisfy=True) if any(v[1]['k'] in ('Boolean', 'Int') for v in s['vars'])][:1200]
        specs += knapsacks(72, 300) + gap_family()
        # models without any integer variable: the entry points accept them too, and an invalid option is invalid there as well
        specs += [s for s in gen.l_seeded(73, 1200, offsets=True, satisfy=True) if not any(v[1]['k'] in ('Boolean', 'Int') for v in s['vars'])][:150]
    else:
        specs = [s for s in gen.l_seeded(700 + sd, 30000, offsets=True, satisfy=True) if any(v[1]['k'] in ('Boolean', 'Int') for v in s['vars'])]
        specs += knapsacks(720 + sd, 3000) + gap_family()
        specs += [s for s in gen.l_seeded(730 + sd, 8000, offsets=True, satisfy=True) if not any(v[1]['k'] in ('Boolean', 'Int') for v in s['vars'])][:1500]
    lim = os.environ.get('VERIF_LIMIT')
    if lim:
        specs = specs[::max(1, len(specs) // int(lim))]
    import random
    random.Random(4321).shuffle(specs)
    items = []
    for i, s in enumerate(specs):
        ops = [('milp_with', o) for o in option_sets(i, t == 'thorough' and i % 4 == 0)]
        # the builder's wrapper forwards the options itself: every invalid gap goes through it too, with and without a limit
        bo = option_sets(i, False)
        ops += [('microlp_builder', o) for o in bo[:: 3] if o['gap'] not in INVALID]
        ops += [('microlp_builder', {'gap': g, 'limit_ns': (None, 0, 1000000)[(i + k) % 3]}) for k, g in enumerate(INVALID)]
        items.append({'idx': i, 'lm': s, 'ops': ops})
    for s in midsearch_family(t):
        lims = [20000000, 100000000, 400000000]
        ops = [('milp_with', {'gap': None, 'limit_ns': l}) for l in lims] + [('microlp_builder', {'gap': '0', 'limit_ns': lims[1]})]
        items.append({'idx': len(items), 'lm': s, 'ops': ops})
    return items


def replay_work(chunk):
    outl = []
    for it, fail in chunk:
        it2 = dict(it, ops=[(n, a) for n, a in it['ops'] if n == fail['solver'] and a.get('gap') == fail['gap'] and a.get('limit_ns') == fail['limit_ns']][:1])
        # timing decides which branch a limited run takes: try a few times, the implication must hold every time
        ok, detail = False, None
        for _ in range(3 if fail['limit_ns'] is not None else 1):
            out = run_driver([{'cmd': 'lm', 'lm': it2['lm'], 'ops': [[n, a] for n, a in it2['ops']]}])[0]
            r = judge(it2, out)
            same = [f for f in r['fails'] if f['ob'] == fail['ob']]
            if same:
                ok, detail = True, {'real_output': {k: v for k, v in out.items() if k != 'lm'}, 'failure': same[0]}
                if same[0].get('point'):
                    pt = zq.point_from_json(same[0]['point'])
                    detail['witness_feasible_exact'] = lin.py_lin_ok(out['lm'], pt)
                    detail['witness_objective'] = str(lin.py_obj(out['lm'], pt))
                    ok = detail['witness_feasible_exact']
                break
        outl.append((ok, detail or {'why': 'not reproduced in 3 runs (timing dependent)'}))
    return outl


def main(prop='C15'):
    t, sd = tier(), seed()
    rep = Report('C15')
    build_s = common.build_driver()
    items = family(t, sd)
    t0 = time.time()
    parts = parallel(work, items, chunk=20)
    results, tw = [], [0, 0]
    stats = dict.fromkeys(zq.STATS, 0)
    for p in parts:
        results += p['results']
        tw[0] += p['twins'][0]
        tw[1] += p['twins'][1]
        for k in stats:
            stats[k] += p['stats'][k]
    outcomes, todo = {}, []
    for r in results:
        for k, v in r['outcomes'].items():
            outcomes[k] = outcomes.get(k, 0) + v
        it = items[r['idx']]
        if r['status'] == 'fault':
            rep.broken.append(r.get('fault'))
        for u in r['unknown']:
            rep.inconclusive.append({'lm': it['lm'], 'obligation': u})
        for fail in r['fails']:
            todo.append((it, fail))
    replayed = parallel(replay_work, todo, chunk=4) if todo else []
    confirmed = flaky = 0
    for (it, fail), (ok, detail) in zip(todo, replayed):
        sig = {'stage': 'milp-options', 'obligation': fail['ob'], 'solver': fail['solver'], 'gap': fail['gap'], 'limit_ns': fail['limit_ns'], 'engine': fail.get('engine'),
               'kind': fail.get('kind'), 'msg': fail.get('msg'), 'has_free_variable': fail.get('has_free_variable'), 'lm': canon(it['lm'])}
        if not ok:
            if fail['limit_ns'] is not None:
                flaky += 1   # a limited run took the other branch on replay: nothing to report, nothing broken
                continue
            rep.broken.append({'why': 'did not reproduce', 'sig': sig})
            continue
        confirmed += 1
        rep.violation(sig, {'property': 'C15', 'lm': it['lm'], 'options': {'gap': fail['gap'], 'limit_ns': fail['limit_ns']}, 'solver': fail['solver'],
                            'obligation': fail['ob'], 'failure': fail, 'confirmation': detail})
    if tw[0] > 0 and tw[1] == 0:
        rep.broken.append({'why': 'no must-fail twin detected', 'twins': tw})
    evidence = {
        'level': 'translation_validation', 'tier': t, 'seed': sd,
        'coverage': {
            'programs': len(items), 'solver_calls': sum(len(it['ops']) for it in items), 'outcomes': outcomes,
            'disagreements_checked': stats['queries'], 'queries': stats,
            'obligations_per_program': ['invalid gap (-1, NaN, inf) => Err', 'Ok => returned point feasible (exact evaluation, 1e-6)', 'status Optimal => LM(x) & objective better than value - gap*|value| - tol unsat',
                                        'Err(Infeasible) => LM unsat / Err(Unbounded) => feasible and an improving ray exists / other error kinds only when a limit was set - judged where the options CHANGED the verdict relative to the default-options run of the same model (a verdict that is the same without options is C05\'s subject)'],
            'error_outcomes_same_as_default_run_left_to_C05': sum(r.get('deferred_to_C05', 0) for r in results),
            'counterexamples_found': len(todo), 'counterexamples_confirmed_against_real_code': confirmed, 'timing_dependent_not_reproduced': flaky,
            'must_fail_twins': {'tried': tw[0], 'detected': tw[1]},
            'samples': [{'lm': it['lm'], 'ops': it['ops'][:3]} for it in items[:: max(1, len(items) // 3)][:3]],
            'exhaustive': False,
            'family': 'seeded MILP members of L(3,3), 4..7-variable knapsack-like MILPs (min, max and satisfy), the gap family (objective of the order of 1e4), continuous-only members of L(3,3) x limits {0,1ns,1us,1ms,none} x gaps {none,0,1e-6,0.5,1,10,-0.0; invalid: -1,NaN,inf,-inf,-1e-9}; every invalid gap also through the builder wrapper',
            'functions_encoded': ['solve_milp_lp_problem_with', 'builder::Microlp::{with_mip_gap,with_time_limit} + Solver::solve'],
            'solver': 'z3 %s' % z3.get_version_string(), 'driver_build_s': round(build_s, 1), 'check_s': round(time.time() - t0, 1),
        },
        'assumptions': ['obligations are implications over outcomes, so the instant at which a limit fires only selects the branch that is exercised'],
    }
    return rep.finish(evidence)


def replay_file(prop, path):
    common.build_driver()
    r = json.load(open(path))
    it = {'idx': 0, 'lm': r['lm'], 'ops': [(r['solver'], r['options'])]}
    ok, detail = replay_work([(it, dict(r['failure']))])[0]
    print(json.dumps({'reproduces': ok, 'detail': detail}, indent=1, default=str)[:3000])
    if ok:
        print('VIOLATION property=C15 replay=%s' % path)
    return 1 if ok else 0


if __name__ == '__main__':
    sys.exit(main())
