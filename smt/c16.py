"""C16: all front doors agree.

The same generator tree is expressed through (a) the fluent builder (operators / helper functions,
three orders of calls), (b) source text through RoocParser + Linearizer, (c) the staged PipeRunner
and (d) the one-shot RoocSolver.  z3 decides, for ALL assignments of the declared variables, pairwise
projection equivalence of the compiled linear models (c10.equivalent); verdicts and optimal values
of the doors that solve must agree and are judged against the source by the C03 oracle queries.
Evaluated (not solver-decided): values read back through handles / by name / eval agree, and a
declared-but-unused builder variable resolves to a value inside its domain."""
import copy, json, os, random, sys, time
from fractions import Fraction
import z3
import common, sem, lin, gen, zq, textgen, c10, c03
from common import run_driver, parallel, Report, tier, seed, canon

QT = 8000
TOL = Fraction(1, 10 ** 6)


def rename(m):
    """variables -> v0, v1, ... (the builder handles are created in this order)"""
    names = [v[0] for v in m['vars']]
    mp = {n: 'v%d' % i for i, n in enumerate(names)}

    def w(e):
        t = e[0]
        if t == 'var':
            return ['var', mp[e[1]]]
        if t == 'num':
            return e
        if t in ('min', 'max', 'and', 'or', 'avg'):
            return [t, [w(x) for x in e[1]]]
        return [t] + [w(x) for x in e[1:]]
    m2 = {'vars': [[mp[v[0]], v[1]] for v in m['vars']], 'obj': {'dir': m['obj']['dir'], 'e': w(m['obj']['e'])}, 'cons': []}
    for c in m['cons']:
        c2 = {'assert': w(c['assert'])} if 'assert' in c else {'l': w(c['l']), 'c': c['c'], 'r': w(c['r'])}
        if c.get('name'):
            c2['name'] = c['name']
        m2['cons'].append(c2)
    return m2


def sol_summary(r):
    if r is None:
        return ('missing', None)
    if r.get('panic') or r.get('hang'):
        return ('panic-or-hang', None)
    if r.get('ok'):
        return ('ok', Fraction(float(r['value'])))
    return (r.get('kind'), None)


def judge(it, ob, ot, op, os_):
    res = {'idx': it['idx'], 'fails': [], 'q': 0, 'unknown': [], 'status': 'ok'}
    m = it['model']
    declared = [v[0] for v in m['vars']]
    lins = {}
    for order, o in ob.items():
        l = o.get('lin', {})
        if o.get('panic') or l.get('panic'):
            res['fails'].append({'ob': 'panic', 'door': 'builder:' + order, 'point': None})
            return res
        lins['builder:' + order] = l
    mt = ot.get('model', {})
    if 'err' in mt:
        res['status'] = 'text-rejected'
        lins['text'] = {'err': mt['err'], 'kind': 'transform'}
    else:
        lins['text'] = mt.get('lin', {})
    if op.get('lin'):
        lins['pipe'] = op['lin']
    elif op.get('err'):
        lins['pipe'] = {'err': op['err'].get('msg'), 'kind': op['err'].get('kind')}
    else:
        lins['pipe'] = {'err': 'no linear model', 'kind': '?'}
    oks = {k: ('ok' in v) for k, v in lins.items()}
    if len(set(oks.values())) > 1:
        res['fails'].append({'ob': 'doors-disagree-on-acceptance', 'accepted': oks, 'errors': {k: (v.get('err') or '')[:80] for k, v in lins.items() if 'ok' not in v}, 'point': None})
        return res
    if not oks['text']:
        res['status'] = 'all-rejected'
        return res
    ref = lins['builder:obj_last']['ok']
    for k, v in lins.items():
        if k == 'builder:obj_last':
            continue
        bad = c10.equivalent(ref, v['ok'], res, declared=[n for n in declared if n in lin.names(ref) and n in lin.names(v['ok'])])
        if bad:
            res['fails'].append({'ob': 'compiled-models-differ', 'doors': ['builder:obj_last', k], 'direction': bad[0], 'point': bad[1]})
        if k.startswith('builder:') and canon(v['ok']) != canon(ref):
            res['fails'].append({'ob': 'builder-call-order-changes-the-model', 'doors': ['builder:obj_last', k], 'point': None})
        # identical trees => identical rows (evaluated): text / pipe against each other
    if canon(lins['text'].get('ok')) != canon(lins['pipe'].get('ok')):
        res['fails'].append({'ob': 'text-and-pipe-models-differ-row-for-row', 'point': None})
    # verdicts and optima of the doors that solve
    sb = ob['obj_last'].get('solve')
    sols = {'builder': sol_summary(sb), 'pipe': sol_summary(op.get('solve') or op.get('err')), 'solver': sol_summary(os_)}
    kinds = {k: v[0] for k, v in sols.items()}
    if len(set(kinds.values())) > 1:
        res['fails'].append({'ob': 'doors-disagree-on-verdict', 'verdicts': kinds, 'point': None})
    elif kinds['builder'] == 'ok' and m['obj']['dir'] != 'solve':
        vals = [v[1] for v in sols.values()]
        if max(vals) - min(vals) > TOL * 10 * (1 + abs(vals[0])):
            res['fails'].append({'ob': 'doors-disagree-on-optimum', 'values': {k: str(v[1]) for k, v in sols.items()}, 'point': None})
    # the continuous pipe chains (RealSolver = Clarabel; standard form -> tableau -> step-by-step simplex) on models
    # whose compiled form is continuous: same verdict class and optimum as the one-shot solver
    for chain in ('real', 'steps'):
        oc = op.get('_' + chain)
        if oc is None or not oks.get('text') or not lin.lm_is_continuous(lins['text']['ok']) or m['obj']['dir'] == 'solve':
            continue   # (the standard-form / tableau chain documents min and max only)
        sc = sol_summary(oc.get('solve') or oc.get('err'))
        ref_s = sols['solver']
        res['chains'] = res.get('chains', 0) + 1
        if sc[0] in ('panic-or-hang', 'missing'):
            res['fails'].append({'ob': 'pipe-chain-panic-or-no-result', 'chain': chain, 'point': None})
        elif (sc[0] == 'ok') != (ref_s[0] == 'ok'):
            res['fails'].append({'ob': 'pipe-chain-disagrees-on-verdict', 'chain': chain, 'chain_verdict': sc[0], 'solver_verdict': ref_s[0], 'point': None})
        elif sc[0] == 'ok' and m['obj']['dir'] != 'solve' and abs(sc[1] - ref_s[1]) > Fraction(1, 10 ** 5) * (1 + abs(ref_s[1])):
            res['fails'].append({'ob': 'pipe-chain-disagrees-on-optimum', 'chain': chain, 'values': [str(sc[1]), str(ref_s[1])], 'point': None})
    # the shared answer is judged against the source by the C03 oracle
    if os_ is not None:
        r3 = c03.judge({'model': m, 'idx': 0}, os_)
        res['q'] += r3['q']
        for f in r3['fails']:
            f['door'] = 'solver'
            res['fails'].append(f)
    # read-back (evaluations)
    if sb and sb.get('ok'):
        hv = sb['handles']
        bn = dict((n, v) for n, v in sb['by_name'])
        names = [v[0] for v in it['builder_model']['vars']]
        doms = dict((v[0], v[1]) for v in it['builder_model']['vars'])
        point = {}
        for n, h in zip(names, hv):
            if h['var_value'] is None or h['numeric_value'] is None or bn.get(n) is None:
                res['fails'].append({'ob': 'handle-does-not-resolve', 'variable': n, 'point': None})
                continue
            a, b, c = Fraction(float(h['var_value'])), Fraction(float(h['numeric_value'])), Fraction(float(bn[n]))
            if a != b or a != c:
                res['fails'].append({'ob': 'read-back-values-differ', 'variable': n, 'values': [str(a), str(b), str(c)], 'point': None})
            if not sem.py_dom(a, doms[n], TOL * (1 + abs(a))):
                res['fails'].append({'ob': 'value-outside-domain', 'variable': n, 'value': str(a), 'domain': doms[n], 'point': None})
            point[n] = a
        if len(point) == len(names) and m['obj']['dir'] != 'solve':
            fv = sem.pyval(it['builder_model']['obj']['e'], point)
            ev = Fraction(float(sb['obj_eval']))
            if abs(fv - ev) > TOL * (1 + abs(fv)):
                res['fails'].append({'ob': 'eval-disagrees-with-semantics', 'eval': str(ev), 'semantics': str(fv), 'point': None})
            if abs(Fraction(float(sb['value'])) - ev) > TOL * 10 * (1 + abs(ev)):
                res['fails'].append({'ob': 'eval-of-objective-differs-from-reported-value', 'eval': str(ev), 'value': sb['value'], 'point': None})
    return res


def work(chunk):
    zq.reset_stats()
    jobs = []
    for it in chunk:
        bm = it['builder_model']
        for order in ('obj_last', 'obj_first', 'with_all', 'override'):
            jobs.append({'cmd': 'builder', 'model': bm, 'order': order, 'solve': order == 'obj_last'})
        jobs.append({'cmd': 'text', 'src': it['src'], 'want': []})
        jobs.append({'cmd': 'pipe', 'src': it['src'], 'solver': 'auto'})
        jobs.append({'cmd': 'solve_text', 'src': it['src']})
        jobs.append({'cmd': 'pipe', 'src': it['src'], 'solver': 'real'})
        jobs.append({'cmd': 'pipe', 'src': it['src'], 'solver': 'steps'})
    outs = run_driver(jobs)
    results = []
    for i, it in enumerate(chunk):
        o = outs[9 * i: 9 * i + 9]
        ob_override = o.pop(3)
        o[4] = dict(o[4], _real=o[6], _steps=o[7])
        try:
            ob = {'obj_last': o[0], 'obj_first': o[1], 'with_all': o[2], 'override': ob_override}
            r = judge(it, ob, o[3], o[4], o[5])
            if it['idx'] % 20 == 0 and 'ok' in (o[3].get('model') or {}).get('lin', {}):
                o3 = copy.deepcopy(o[3])
                L = o3['model']['lin']['ok']
                if L['rows']:
                    L['rows'][0]['b'] = repr(float(L['rows'][0]['b']) + 1.0)
                    r2 = judge(it, ob, o3, o[4], o[5])
                    r['twin'] = (1, 1 if r2['fails'] else 0)
        except Exception:
            import traceback
            r = {'idx': it['idx'], 'fails': [], 'q': 0, 'unknown': [], 'status': 'fault', 'fault': traceback.format_exc()[-700:]}
        results.append(r)
    return [{'results': results, 'stats': dict(zq.STATS)}]


def family(t, sd):
    base = c03.family(t, sd)
    items = []
    step = 4 if t == 'quick' else 1
    rnd = random.Random(16)
    for it in base[::step]:
        m = it['model']
        if not m['vars'] or 'avg' in str(m):
            continue
        m2 = rename(m)
        bm = copy.deepcopy(m2)
        # a declared-but-unused builder variable (the text door drops unused declarations)
        if rnd.random() < 0.3:
            bm['vars'].append(['v%d' % len(bm['vars']), rnd.choice([gen.D('Boolean'), gen.D('Int', 2, 5), gen.D('Real', -1, 1.5), gen.D('NNReal', 0.5, 2)])])
        # the text door sees the model without names duplicated by the generator? keep names as they are
        src = textgen.model_text(m2, it['style'])
        items.append({'model': m2, 'builder_model': bm, 'src': src})
    lim = os.environ.get('VERIF_LIMIT')
    if lim:
        items = items[::max(1, len(items) // int(lim))]
    for i, it in enumerate(items):
        it['idx'] = i
    return items


# ------------------------------------------------------------------ constants supplied through the API
def api_items(t, sd):
    """models of the C03 family with one literal lifted into a constant, written three ways: the constant in the
    where-block (reference); the constant supplied through the API (parse_and_transform / PipeContext / RoocSolver data);
    the constant DERIVED in the where-block from an API constant (`let kc = ka + 1`, ka = kc - 1 supplied), which needs
    the where-block to see what the API supplied"""
    base = c03.family(t, sd)
    out = []
    for j, it in enumerate(base[::(7 if t == 'quick' else 2)]):
        m2, consts = textgen.lift_constants(it['model'])
        if not consts:
            continue
        v = consts['kc']
        style = it.get('style', 'paren')
        try:
            ref = textgen.model_text(m2, style, consts)
            bare = textgen.model_text(m2, style, None)
        except Exception:
            continue
        lines = bare.split('\n')
        # a where-block is written between the constraints and the define section
        if 'define' not in lines:
            continue   # variable-free model
        k = lines.index('define')
        derived = '\n'.join(lines[:k] + ['where', '    let kc = ka + 1'] + lines[k:])
        out.append({'ref': ref, 'variants': [{'src': bare, 'consts': [['kc', v]], 'how': 'api'},
                                             {'src': derived, 'consts': [['ka', v - 1]], 'how': 'derived-from-api'}], 'model': m2})
    return out


def api_work(chunk):
    zq.reset_stats()
    jobs = []
    for it in chunk:
        jobs.append({'cmd': 'text', 'src': it['ref'], 'want': ['type_check']})
        jobs.append({'cmd': 'solve_text', 'src': it['ref']})
        for var in it['variants']:
            jobs.append({'cmd': 'text', 'src': var['src'], 'consts': var['consts'], 'want': ['type_check']})
            jobs.append({'cmd': 'pipe', 'src': var['src'], 'consts': var['consts'], 'solver': 'auto'})
            jobs.append({'cmd': 'solve_text', 'src': var['src'], 'consts': var['consts']})
    outs = run_driver(jobs)
    results, k = [], 0
    for it in chunk:
        res = {'idx': it['idx'], 'fails': [], 'q': 0, 'unknown': [], 'status': 'ok'}
        oref, sref = outs[k], outs[k + 1]
        k += 2
        lref = ((oref.get('model') or {}).get('lin') or {})
        for var in it['variants']:
            ot, op, os_ = outs[k], outs[k + 1], outs[k + 2]
            k += 3
            lt = ((ot.get('model') or {}).get('lin') or {})
            tag = {'how': var['how'], 'src': var['src'], 'consts': var['consts']}
            if ('ok' in lref) != ('ok' in lt):
                res['fails'].append(dict(tag, ob='api-constant-door-differs-on-acceptance', ref=str(lref.get('err') or (oref.get('model') or {}).get('err'))[:160],
                                         got=str(lt.get('err') or (ot.get('model') or {}).get('err') or (ot.get('type_check') or {}).get('err'))[:200], point=None))
                continue
            if 'ok' in lref:
                LA, LB = lref['ok'], lt['ok']
                names = [n for n, _ in LA['vars'] if not n.startswith('$')]
                if sorted(n for n, _ in LB['vars'] if not n.startswith('$')) != sorted(names):
                    res['fails'].append(dict(tag, ob='api-constant-door-variable-set-differs', point=None))
                    continue
                bad = c10.equivalent(LA, LB, res, declared=names)
                if bad:
                    res['fails'].append(dict(tag, ob='api-constant-door-model-differs', direction=bad[0], point=bad[1]))
            # the staged pipe runner given the same constants through its PipeContext: the stages it completes must
            # be the ones the reference text completes, with an equivalent compiled model
            lp = (op.get('lin') or {})
            if ('ok' in lref) != ('ok' in lp):
                res['fails'].append(dict(tag, ob='api-constant-pipe-door-differs-on-acceptance', ref=str(lref.get('err'))[:160],
                                         got=str(op.get('err'))[:200], point=None))
            elif 'ok' in lref:
                LA, LP = lref['ok'], lp['ok']
                names = [n for n, _ in LA['vars'] if not n.startswith('$')]
                if sorted(n for n, _ in LP['vars'] if not n.startswith('$')) != sorted(names):
                    res['fails'].append(dict(tag, ob='api-constant-pipe-door-variable-set-differs', point=None))
                else:
                    bad = c10.equivalent(LA, LP, res, declared=names)
                    if bad:
                        res['fails'].append(dict(tag, ob='api-constant-pipe-door-model-differs', direction=bad[0], point=bad[1]))
            # the solving doors: same verdict and optimum as the reference text
            a, b = sol_summary(sref), sol_summary(os_)
            if a[0] != b[0] or (a[0] == 'ok' and abs(a[1] - b[1]) > 1e-6 * (1 + abs(a[1]))):
                res['fails'].append(dict(tag, ob='api-constant-solver-door-differs', ref=str(a), got=str(b), point=None))
            if 'ok' in lref:
                p = sol_summary(op.get('solve') or op.get('err') or {})
                if a[0] != p[0] or (a[0] == 'ok' and it['model']['obj']['dir'] != 'solve' and abs(a[1] - p[1]) > 1e-6 * (1 + abs(a[1]))):
                    res['fails'].append(dict(tag, ob='api-constant-pipe-solver-door-differs', ref=str(a), got=str(p), point=None))
        results.append(res)
    return [{'results': results, 'stats': dict(zq.STATS)}]


def api_replay(chunk):
    out = []
    for it, f in chunk:
        r = api_work([dict(it, idx=0)])[0]['results'][0]
        same = [x for x in r['fails'] if x['ob'] == f['ob'] and x.get('how') == f.get('how')]
        out.append((bool(same), {'reference': it['ref'], 'failure': same[0] if same else None}))
    return out


# ------------------------------------------------------------------ macro door
def macro_items(t):
    """the two macro-written models of the driver (`vars!`, `constraint!`, `expr!`) over a grid of the numbers they take"""
    import itertools
    out = []
    grid = [(-2.0, 3.0), (0.0, 0.0), (-5.0, -1.0), (0.5, 'inf')] if t == 'quick' else [(-2.0, 3.0), (0.0, 0.0), (-5.0, -1.0), (0.5, 'inf'), ('-inf', 2.0), (-0.5, 0.25), (1e-9, 1e9)]
    nn = [(0.0, 4.0), (0.5, 'inf'), (2.0, 2.0)]
    for k in (0, 1):
        for (a, b), (c, d), (ilo, ihi), (p4, p5), n, dr in itertools.product(grid, nn, [(-3, 4), (0, 1), (2, 2)], [(3.0, -1.5), (0.0, 0.0), (-2.0, -6.0)], (1, 2, 3), ('min', 'max')):
            if k == 0 and n != 2:
                continue
            if t == 'quick' and (len(out) % 3):
                out.append(None)
                continue
            out.append({'k': k, 'p': [a, b, c, d, p4, p5], 'ints': [ilo, ihi], 'n': n, 'dir': dr})
    # collection helpers of the builder (any / all / sum / min / max) over families of 0, 1, 2, 3 variables
    for which, n, (a, b), (p4, p5), dr in itertools.product(('any', 'all', 'not_any', 'not_all'), (0, 1, 2, 3), [(-2.0, 3.0), (0.0, 4.0)], [(3.0, -1.5), (0.0, 0.0)], ('min', 'max')):
        out.append({'k': 2, 'which': which, 'p': [a, b, 0.0, 1.0, p4, p5], 'ints': [0, 1], 'n': n, 'dir': dr})
    return [o for o in out if o]


def macro_text(it):
    def nm(x):
        if x == 'inf':
            return 'Infinity'
        if x == '-inf':
            return 'MinusInfinity'
        return textgen.num_text(x)
    a, b, c, d, p4, p5 = it['p']
    ilo, ihi = it['ints']
    if it['k'] == 2:
        n = it['n']
        rng = '0..%d' % n
        logic = {'any': 'any(i in %s) { b_i }', 'all': 'all(i in %s) { b_i }', 'not_any': 'not any(i in %s) { b_i }', 'not_all': 'not all(i in %s) { b_i }'}[it['which']] % rng
        rows = ['lg: ' + logic, 'sm: y >= sum(i in %s) { x_i } + %s' % (rng, nm(p5))]
        if n >= 1:
            rows += ['mx: y <= max(i in %s) { x_i } + %s' % (rng, nm(p4)), 'mn: y + 1 >= min(i in %s) { x_i }' % rng]
        obj = 'y + sum(i in %s) { b_i }' % rng
        dom = ['y as Real(0, 10)', 'b_i as Boolean for i in %s' % rng, 'x_i as Real(%s, %s) for i in %s' % (nm(a), nm(b), rng)]
        return '%s %s\ns.t.\n    %s\ndefine\n    %s' % (it['dir'], obj, '\n    '.join(rows), '\n    '.join(dom))
    if it['k'] == 0:
        rows = ['c1: x + y <= %s' % nm(p4), 'y - z >= %s' % nm(p5), 'c3: w + u = %s' % nm(p4), 'w >= %s' % nm(p5), 'u <= %s' % nm(p4), 'a -> b', 'imp: a <-> b', 'a or b']
        obj = 'x + y + z + w + u + a + b'
        dom = ['a, b as Boolean', 'x as IntegerRange(%d, %d)' % (ilo, ihi), 'y as Real(%s, %s)' % (nm(a), nm(b)), 'z as NonNegativeReal(%s, %s)' % (nm(c), nm(d)), 'w as Real', 'u as NonNegativeReal']
    else:
        n = it['n']
        rows, terms = [], []
        for i in range(n):
            rows += ['t_%d >= %s' % (i, nm(p5)), 't_%d + u_%d <= %s' % (i, i, nm(p4)), 'r_%d + q_%d - o_%d <= %s' % (i, i, i, nm(p4)), 's_%d + r_%d >= %s' % (i, i, nm(p5))]
            terms += ['t_%d' % i, 'u_%d' % i, 's_%d' % i, 'r_%d' % i, 'q_%d' % i, 'o_%d' % i]
        obj = ' + '.join(terms)
        lst = lambda v: ', '.join('%s_%d' % (v, i) for i in range(n))
        dom = ['%s as Real' % lst('t'), '%s as NonNegativeReal' % lst('u'), '%s as Boolean' % lst('s'), '%s as IntegerRange(%d, %d)' % (lst('r'), ilo, ihi),
               '%s as Real(%s, %s)' % (lst('q'), nm(a), nm(b)), '%s as NonNegativeReal(%s, %s)' % (lst('o'), nm(c), nm(d))]
    return '%s %s\ns.t.\n    %s\ndefine\n    %s' % (it['dir'], obj, '\n    '.join(rows), '\n    '.join(dom))


def macro_work(chunk):
    zq.reset_stats()
    jobs = []
    for it in chunk:
        jobs.append(dict(it, cmd='macro'))
        jobs.append({'cmd': 'text', 'src': macro_text(it), 'want': ['type_check']})
    outs = run_driver(jobs)
    results = []
    for i, it in enumerate(chunk):
        om, ot = outs[2 * i], outs[2 * i + 1]
        res = {'idx': it['idx'], 'fails': [], 'q': 0, 'unknown': [], 'status': 'ok', 'src': macro_text(it)}
        lm = (om.get('lin') or {})
        lt = ((ot.get('model') or {}).get('lin') or {})
        if om.get('crash') or lm.get('panic'):
            res['fails'].append({'ob': 'macro-door-panic', 'point': None})
        elif ('ok' in lm) != ('ok' in lt):
            # empty integer / real ranges (lo > hi) etc.: both doors must agree on accepting the model
            res['fails'].append({'ob': 'macro-and-text-doors-disagree-on-acceptance', 'macro': str(lm)[:200], 'text': str(lt or ot)[:200], 'point': None})
        elif 'ok' in lm:
            LA, LB = lm['ok'], lt['ok']
            da, db = dict((n, d) for n, d in LA['vars']), dict((n, d) for n, d in LB['vars'])
            common_ = [n for n in da if n in db]
            missing = [n for n in db if n not in da] + [n for n in da if n not in db and not n.startswith('$')]
            if missing:
                res['fails'].append({'ob': 'macro-door-variable-set-differs', 'vars': missing, 'point': None})
            else:
                bad = c10.equivalent(LA, LB, res, declared=common_)
                if bad:
                    res['fails'].append({'ob': 'macro-door-model-differs-from-text', 'direction': bad[0], 'point': bad[1]})
        else:
            res['status'] = 'both-reject'
        results.append(res)
    return [{'results': results, 'stats': dict(zq.STATS)}]


def macro_replay(chunk):
    out = []
    for it, f in chunk:
        r = macro_work([dict(it, idx=0)])[0]['results'][0]
        same = [x for x in r['fails'] if x['ob'] == f['ob']]
        out.append((bool(same), {'source': r['src'], 'failure': same[0] if same else None}))
    return out


def replay_fail(it, fail):
    r = work([dict(it, idx=1)])[0]['results'][0]
    same = [f for f in r['fails'] if f['ob'] == fail['ob']]
    if not same:
        return False, {'why': 'not reproduced'}
    return True, {'source': it['src'], 'failure': same[0]}


def replay_work(chunk):
    return [replay_fail(it, f) for it, f in chunk]


def main(prop='C16'):
    t, sd = tier(), seed()
    rep = Report('C16')
    build_s = common.build_driver()
    items = family(t, sd)
    t0 = time.time()
    parts = parallel(work, items, chunk=25)
    stats = dict.fromkeys(zq.STATS, 0)
    results = []
    for p in parts:
        results += p['results']
        for k in stats:
            stats[k] += p['stats'][k]
    by_status, tw, todo = {}, [0, 0], []
    chains_run = sum(r.get('chains', 0) for r in results)
    for r in results:
        by_status[r['status']] = by_status.get(r['status'], 0) + 1
        it = items[r['idx']]
        if 'twin' in r:
            tw[0] += r['twin'][0]
            tw[1] += r['twin'][1]
        if r['status'] == 'fault':
            rep.broken.append(r.get('fault'))
        for u in r['unknown']:
            rep.inconclusive.append({'src': it['src'], 'obligation': u})
        for f in r['fails']:
            todo.append((it, f))
    replayed = parallel(replay_work, todo, chunk=4) if todo else []
    confirmed, classes = 0, {}
    for (it, f), (ok, detail) in zip(todo, replayed):
        sig = {'stage': 'front-doors', 'obligation': f['ob'], 'source': it['src']}
        if not ok:
            rep.broken.append({'why': 'did not reproduce', 'sig': sig})
            continue
        confirmed += 1
        classes[f['ob']] = classes.get(f['ob'], 0) + 1
        rep.violation(sig, {'property': 'C16', 'source': it['src'], 'builder_model': it['builder_model'], 'model': it['model'], 'obligation': f['ob'], 'failure': f, 'confirmation': detail})
    # macro door
    mitems = macro_items(t)
    for i, it in enumerate(mitems):
        it['idx'] = i
    mparts = parallel(macro_work, mitems, chunk=25)
    mres = []
    for p in mparts:
        mres += p['results']
        for k in stats:
            stats[k] += p['stats'][k]
    mstatus, mtodo = {}, []
    for r in mres:
        mstatus[r['status']] = mstatus.get(r['status'], 0) + 1
        for u in r['unknown']:
            rep.inconclusive.append({'src': r['src'], 'obligation': u})
        for f in r['fails']:
            mtodo.append((mitems[r['idx']], f))
    mrep = parallel(macro_replay, mtodo, chunk=4) if mtodo else []
    for (it, f), (ok, detail) in zip(mtodo, mrep):
        sig = {'stage': 'macro-door', 'obligation': f['ob'], 'job': canon({k: v for k, v in it.items() if k != 'idx'})}
        if not ok:
            rep.broken.append({'why': 'did not reproduce', 'sig': sig})
            continue
        confirmed += 1
        classes[f['ob']] = classes.get(f['ob'], 0) + 1
        rep.violation(sig, {'property': 'C16', 'macro_job': it, 'obligation': f['ob'], 'failure': f, 'confirmation': detail, 'kind': 'macro'})
    # constants supplied through the API
    aitems = api_items(t, sd)
    for i, it in enumerate(aitems):
        it['idx'] = i
    aparts = parallel(api_work, aitems, chunk=25)
    ares = []
    for p in aparts:
        ares += p['results']
        for k in stats:
            stats[k] += p['stats'][k]
    atodo = []
    for r in ares:
        for u in r['unknown']:
            rep.inconclusive.append({'src': aitems[r['idx']]['ref'], 'obligation': u})
        for f in r['fails']:
            atodo.append((aitems[r['idx']], f))
    arep = parallel(api_replay, atodo, chunk=4) if atodo else []
    for (it, f), (ok, detail) in zip(atodo, arep):
        sig = {'stage': 'api-constants', 'obligation': f['ob'], 'how': f.get('how'), 'source': f.get('src')}
        if not ok:
            rep.broken.append({'why': 'did not reproduce', 'sig': sig})
            continue
        confirmed += 1
        classes[f['ob']] = classes.get(f['ob'], 0) + 1
        rep.violation(sig, {'property': 'C16', 'reference': it['ref'], 'obligation': f['ob'], 'failure': f, 'confirmation': detail, 'kind': 'api-constants'})
    if tw[0] > 0 and tw[1] == 0:
        rep.broken.append({'why': 'no must-fail twin detected', 'twins': tw})
    evidence = {
        'level': 'translation_validation', 'tier': t, 'seed': sd,
        'coverage': {
            'programs': len(items), 'front_door_runs': 9 * len(items), 'continuous_pipe_chain_runs_judged': chains_run, 'by_status': by_status, 'disagreements_checked': stats['queries'], 'queries': stats,
            'obligations_per_program': ['all doors accept or all reject', 'pairwise projection equivalence of the compiled linear models (exists/forall) for builder x4 call orders (objective last / first / with_all / a throw-away objective replaced by the real one), text, pipe',
                                        'same verdict and optimum from builder.solve_with(Auto), PipeRunner(auto) and RoocSolver; the answer judged against the source by the C03 oracle queries',
                                        'evaluated: builder call order gives the identical model; text and pipe models identical row for row; handle / name / eval read-back agree; unused builder variables inside their domain'],
            'counterexamples_found': len(todo), 'counterexamples_confirmed_against_real_code': confirmed, 'confirmed_by_class': classes,
            'must_fail_twins': {'tried': tw[0], 'detected': tw[1]},
            'samples': [it['src'] for it in items[:3]], 'exhaustive': False,
            'family': 'every 4th member of the C03 family (all members in the thorough tier) expressed through every door; 30% carry an extra unused builder variable',
            'functions_encoded': ['ModelBuilder (add_var, with, with_all, minimize/maximize/satisfy, into_model, linearize, solve_with(Auto))', 'builder Expr operators / abs,min,max,all,any', 'BuilderSolution::{var_value,numeric_value,eval,value}',
                                  'RoocParser::parse_and_transform + Linearizer', 'PipeRunner [Compiler, PreModel, Model, LinearModel, AutoSolver | RealSolver | StandardLinearModel, Tableau, StepByStepSimplex]', 'RoocSolver::solve_using(auto_solver)'],
            'solver': 'z3 %s' % z3.get_version_string(), 'driver_build_s': round(build_s, 1), 'check_s': round(time.time() - t0, 1),
            'macro_door': {'models': len(mitems), 'by_status': mstatus, 'what': 'two models written with vars! / constraint! / expr! (every declaration rule, scalar and array; every relation and logic rule) over a grid of bounds, right-hand sides, counts and directions, compared (variable set, domains through the projection equivalence) with the same model as source text'},
            'api_constants_door': {'models': len(aitems), 'what': 'one literal lifted into a constant and supplied (a) in the where-block, (b) through the API of parse_and_transform / PipeContext / RoocSolver::solve_with_data_using, (c) derived in the where-block from an API constant; compiled models compared by projection equivalence, solver doors by verdict and optimum'},
            'outside': ['macro-written models other than the two of the driver (a macro needs compile-time expansion per model shape)', 'API constants other than numbers (arrays, graphs)'],
        },
        'assumptions': ['the mapping of generator trees onto builder calls in driver/src/front.rs is the API a user would write'],
    }
    return rep.finish(evidence)


def replay_file(prop, path):
    common.build_driver()
    r = json.load(open(path))
    ok, detail = replay_fail({'src': r['source'], 'builder_model': r['builder_model'], 'model': r['model']}, r['failure'])
    print(json.dumps({'reproduces': ok, 'detail': detail}, indent=1, default=str)[:3000])
    if ok:
        print('VIOLATION property=C16 replay=%s' % path)
    return 1 if ok else 0


if __name__ == '__main__':
    sys.exit(main())
