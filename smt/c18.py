"""C18 (kernel part): the value-level arithmetic, conversion and span kernels are total.

Kani/CBMC executes the REAL `ApplyOp` implementations for i64 / u64 / f64 / bool symbolically, one
harness per (receiver type, operator, operand kind), over ALL 64-bit operands (no loops, so the
bound is the full input space of each kernel): no panic / overflow trap / abort in the dev profile,
integer results equal the mathematical result (i128) or the call returns an error, division by
zero is an error.  Everything else in C18 (pest, formatting, span rendering, allocation, termination
of the pipeline on arbitrary strings) cannot be executed symbolically here and is NOT claimed."""
import json, os, sys, time
import common, kani_run
from common import Report, tier, seed


def main(prop='C18'):
    t, sd = tier(), seed()
    rep = Report('C18')
    r = kani_run.run_group('arith', timeout_s=1500 if t == 'quick' else 3000)
    for g in ('span', 'idx'):
        r2 = kani_run.run_group(g, timeout_s=900)
        # one result over all groups
        r = dict(r, harnesses=dict(r['harnesses'], **r2['harnesses']), failed_checks=dict(r.get('failed_checks') or {}, **(r2.get('failed_checks') or {})),
                 playback=dict(r.get('playback') or {}, **(r2.get('playback') or {})), wall_s=round(r['wall_s'] + r2['wall_s'], 1),
                 status=('violation' if 'violation' in (r['status'], r2['status']) else ('inconclusive' if 'inconclusive' in (r['status'], r2['status']) else 'ok')),
                 why={'before': r.get('why'), g: r2.get('why')}, log=r['log'] + ' ' + r2['log'])
    hs = r['harnesses']
    proved = [n for n, v in hs.items() if v == 'SUCCESSFUL']
    failed = [n for n, v in hs.items() if v == 'FAILED' and not n.endswith('_witness')]
    for n in failed:
        pb = (r.get('playback') or {}).get(n, {})
        sig = {'stage': 'kani', 'harness': n}
        if pb and pb.get('reproduced') is False:
            rep.broken.append({'why': 'Kani counterexample did not reproduce natively', 'harness': n, 'playback': pb})
            continue
        rep.violation(sig, {'property': 'C18', 'kind': 'kani', 'harness': n, 'failed_checks': r.get('failed_checks', {}).get(n), 'playback': pb,
                            'how_to_replay': 'python3-vt smt/kani_run.py arith  (then: cargo kani playback with the printed test)'})
    if r['status'] == 'inconclusive':
        rep.broken.append({'why': 'Kani run inconclusive', 'detail': r.get('why'), 'log': r['log']})
    evidence = {
        'level': 'other', 'tier': t, 'seed': sd,
        'coverage': {
            'explanation': 'Bounded model checking with Kani 0.68 / CBMC 6.11 (cadical) of the real compiled kernels with symbolic inputs: every harness quantifies over all 64-bit operands of one (receiver, operator, operand kind) combination; there are no loops in these kernels, so no unwinding bound applies. Deciding step: SAT verdict per harness.',
            'obligations': len([n for n in hs if not n.endswith('_witness')]), 'discharged': len(proved),
            'checker_cmd': 'cargo kani --features verif-hooks -j 16 --output-format terse --harness <each> (ROOC_VERIF_KANI_DIR=/verif/kani) on an rsync copy of /repo working tree',
            'trusted_base': ['Kani 0.68.0', 'CBMC 6.11.0', 'cadical', 'rustc MIR -> goto translation'],
            'harnesses': hs, 'vacuity_witnesses': {n: v for n, v in hs.items() if n.endswith('_witness')},
            'functions_encoded': kani_run.functions_encoded('arith') + kani_run.functions_encoded('span') + kani_run.functions_encoded('idx'),
            'stubs': ['alloc::fmt::format -> empty String in the span and idx groups (the error text is not part of the claim)', '<IterableKind as Display>::fmt -> Ok(()) in the idx group'],
            'evaluations': len(hs), 'distinct_nontrivial': len(proved),
            'samples': [{'harness': 'span_text_total', 'inputs': 'start: u32 = any, len: u32 = any, text = "a\u2264b\u00e9c"', 'assert': 'returns; Ok <=> span inside the text on character boundaries; slice length = len'}, {'harness': 'arith_u64_sub_int', 'inputs': 'a: u64 = any, b: i64 = any', 'assert': 'Ok(Integer(v)) => v == a - b in i128; otherwise Err'}],
            'kani_wall_s': r['wall_s'],
            'outside': ['pest parser, formatter, span rendering', 'allocation of user-sized ranges', 'termination of the whole pipeline on arbitrary strings', 'release-profile wrapping semantics'],
        },
        'assumptions': ['dev-profile semantics (overflow checks on), which is what the test suite runs and Kani models'],
    }
    return rep.finish(evidence)


def replay_file(prop, path):
    print(open(path).read()[:2000])
    return 0


if __name__ == '__main__':
    sys.exit(main())
