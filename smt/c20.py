"""C20: shadow prices are the sensitivities of the optimum.

For every continuous L-model with named rows whose optimum z3 proves unique and whose value
function is locally linear in a row's right-hand side, the price reported by the real Clarabel
entry point must equal the exact sensitivity.  The sensitivity statement itself is decided by
z3 on the parametric problem with a SYMBOLIC perturbation delta:
    for all delta in [-d0, d0], for all x:  LM[b_i + delta](x)  =>  obj(x) >= opt + p*delta   (min; <= for max)
    for all delta in [-d0, d0], exists x:   LM[b_i + delta](x) and obj(x) = opt + p*delta
with p the exact rational slope obtained from two exact re-solves."""
import copy, json, os, sys, time
from fractions import Fraction
import z3
import common, sem, lin, gen, zq, lmcheck
from common import run_driver, parallel, Report, tier, seed, fs, canon

QT = 10000
PTOL = Fraction(1, 10 ** 5)


def optimum(L, shift=None):
    """exact optimum by z3 Optimize; shift = (row index, Fraction) perturbs one rhs.  -> (status, value, point)"""
    L2 = L
    x = lmcheck.lm_env(L)
    o = z3.Optimize()
    o.set('timeout', QT)
    cs = lin.lin_rows_c(L, x, skip={shift[0]} if shift else None) + lin.lin_doms_c(L, x)
    if shift:
        i, d = shift
        a, c, b = lin.row_parts(L['rows'][i])
        lhs = z3.Sum([sem.Q(v) * x[n] for v, n in zip(a, lin.names(L)) if v != 0] + [z3.RealVal(0)])
        cs.append(sem.cmp_c(lhs, c, sem.Q(Fraction(b) + d)))
    o.add(*cs)
    g = lin.lin_obj(L, x)
    h = o.minimize(g) if L['dir'] == 'min' else o.maximize(g)
    r = o.check()
    if r != z3.sat:
        return ('infeasible' if r == z3.unsat else 'unknown'), None, None
    v = o.lower(h) if L['dir'] == 'min' else o.upper(h)
    if not z3.is_rational_value(v) and not z3.is_int_value(v):
        return 'unbounded', None, None
    m = o.model()
    pt = {n: zq.to_frac(m.eval(x[n], model_completion=True)) for n in x}
    return 'ok', zq.to_frac(v), pt


def judge(item, out):
    res = {'idx': item['idx'], 'fails': [], 'q': 0, 'unknown': [], 'status': 'ok', 'rows_checked': 0, 'rows_skipped': 0}
    L = out['lm']
    r = out.get('clarabel', {})
    if r.get('panic') or r.get('hang'):
        res['fails'].append({'ob': 'solver-panic-or-hang', 'point': None})
        return res
    st, opt, xstar = optimum(L)
    res['q'] += 1
    if st != 'ok':
        res['status'] = 'skip-' + st
        return res
    if not r.get('ok'):
        res['status'] = 'skip-solver-' + str(r.get('kind'))
        return res
    x = lmcheck.lm_env(L)
    LM = lin.lin_c(L, x)
    g = lin.lin_obj(L, x)
    v, _, _ = zq.query([LM, g == sem.Q(opt), z3.Or([x[n] != sem.Q(xstar[n]) for n in x])], timeout_ms=QT)
    res['q'] += 1
    if v != 'unsat':
        res['status'] = 'skip-optimum-not-unique'
        return res
    duals = {k: Fraction(float(v)) for k, v in r.get('duals', [])}
    names = [row.get('name') or '' for row in L['rows']]
    # unnamed rows report none; every named row reports one
    for k in duals:
        if k not in names:
            res['fails'].append({'ob': 'price-for-unknown-row', 'row': k, 'point': None})
    for i, nm in enumerate(names):
        if not nm:
            continue
        if names.count(nm) > 1:
            continue
        if nm not in duals:
            res['fails'].append({'ob': 'named-row-without-price', 'row': nm, 'point': None})
            continue
        p, d0 = exact_slope(L, i, opt, x, g, res)
        if p is None:
            res['rows_skipped'] += 1
            continue
        res['rows_checked'] += 1
        rep = duals[nm]
        if abs(rep - p) > PTOL * (1 + abs(p)) * 10:
            res['fails'].append({'ob': 'shadow-price-wrong', 'row': nm, 'row_index': i, 'reported': fs(float(rep)), 'exact': str(p), 'delta0': str(d0), 'dir': L['dir'], 'cmp': L['rows'][i]['c'], 'point': None})
    return res


def exact_slope(L, i, opt, x, g, res):
    """exact sensitivity of the optimum w.r.t. rhs of row i, proven for a symbolic delta; None if degenerate"""
    d0 = Fraction(1, 1024)
    for _ in range(3):
        s1, v1, _ = optimum(L, (i, d0))
        s2, v2, _ = optimum(L, (i, -d0))
        res['q'] += 2
        if s1 == 'ok' and s2 == 'ok' and (v1 - opt) == -(v2 - opt):
            p = (v1 - opt) / d0
            if sensitivity_holds(L, i, opt, p, d0, x, g, res):
                return p, d0
        d0 = d0 / 16
    return None, None


def sensitivity_holds(L, i, opt, p, d0, x, g, res):
    delta = z3.Real('delta')
    rng = [delta >= sem.Q(-d0), delta <= sem.Q(d0)]
    a, c, b = lin.row_parts(L['rows'][i])
    lhs = z3.Sum([sem.Q(v) * x[n] for v, n in zip(a, lin.names(L)) if v != 0] + [z3.RealVal(0)])
    rhs = sem.Q(b) + delta
    row = lhs <= rhs if c == '<=' else (lhs >= rhs if c == '>=' else lhs == rhs)
    LMd = z3.And(lin.lin_rows_c(L, x, skip={i}) + lin.lin_doms_c(L, x) + [row])
    line = sem.Q(opt) + sem.Q(p) * delta
    worse = (g < line) if L['dir'] == 'min' else (g > line)
    v, _, _ = zq.query(rng + [LMd, worse], timeout_ms=QT)
    res['q'] += 1
    if v != 'unsat':
        return False
    xs = [x[n] for n in x]
    v, _, _ = zq.query(rng + [z3.ForAll(xs, z3.Not(z3.And(LMd, g == line)))], timeout_ms=QT)
    res['q'] += 1
    return v == 'unsat'


def work(chunk):
    zq.reset_stats()
    outs = run_driver([{'cmd': 'lm', 'lm': it['lm'], 'ops': ['clarabel']} for it in chunk])
    results, tw = [], [0, 0]
    for it, out in zip(chunk, outs):
        try:
            r = judge(it, out)
            results.append(r)
            if r['rows_checked'] and it['idx'] % 5 == 0:
                m = copy.deepcopy(out)
                for d in m['clarabel']['duals']:
                    d[1] = fs(float(d[1]) + 0.5)
                r2 = judge(it, m)
                tw[0] += 1
                tw[1] += 1 if r2['fails'] else 0
                m = copy.deepcopy(out)
                for d in m['clarabel']['duals']:
                    d[1] = fs(-float(d[1]))
                if any(float(d[1]) != 0 for d in m['clarabel']['duals']):
                    r2 = judge(it, m)
                    tw[0] += 1
                    tw[1] += 1 if r2['fails'] else 0
        except Exception:
            import traceback
            results.append({'idx': it['idx'], 'fails': [], 'q': 0, 'unknown': [], 'status': 'fault', 'fault': traceback.format_exc()[-800:], 'rows_checked': 0, 'rows_skipped': 0})
    return [{'results': results, 'twins': tw, 'stats': dict(zq.STATS)}]


def family(t, sd):
    n = 8000 if t == 'quick' else 60000
    kinds = [gen.D('NNReal', 0, 'inf'), gen.D('Real', '-inf', 'inf'), gen.D('Real', -2, 3), gen.D('NNReal', 0, 4), gen.D('Real', '-inf', 3), gen.D('NNReal', 1, 'inf')]
    import random
    r = random.Random(81 + (sd if t == 'thorough' else 0))
    specs = []
    for _ in range(n):
        nv = r.randint(1, 3)
        nr = r.randint(1, 3)
        ks = [r.choice(kinds) for _ in range(nv)]
        rows = [([r.choice([0, 1, -1, 2, -2, 0.5, 3, 4, 1.5]) for _ in range(nv)], r.choice(['<=', '>=', '=', '<=', '>=']), r.choice([0, 1, -1, 2, 3, 0.5, 4, -3, 2.5])) for _ in range(nr)]
        obj = [r.choice([1, -1, 2, -2, 0.5, 3, 0]) for _ in range(nv)]
        names = [('r%d' % i) if r.random() < 0.85 else '' for i in range(nr)]
        specs.append(gen.lm_spec(ks, rows, obj, r.choice(['min', 'max']), r.choice([0, 0, 1.5]), names))
    lim = os.environ.get('VERIF_LIMIT')
    if lim:
        specs = specs[::max(1, len(specs) // int(lim))]
    return [{'idx': i, 'lm': s} for i, s in enumerate(specs)]


def replay_fail(it, fail):
    out = run_driver([{'cmd': 'lm', 'lm': it['lm'], 'ops': ['clarabel']}])[0]
    r = judge(dict(it, idx=0), out)
    same = [f for f in r['fails'] if f['ob'] == fail['ob'] and f.get('row') == fail.get('row')]
    if not same:
        return False, {'why': 'not reproduced'}
    return True, {'real_output': out.get('clarabel'), 'failure': same[0]}


def main(prop='C20'):
    t, sd = tier(), seed()
    rep = Report('C20')
    build_s = common.build_driver()
    items = family(t, sd)
    t0 = time.time()
    parts = parallel(work, items, chunk=25)
    results, tw = [], [0, 0]
    stats = dict.fromkeys(zq.STATS, 0)
    for p in parts:
        results += p['results']
        tw[0] += p['twins'][0]
        tw[1] += p['twins'][1]
        for k in stats:
            stats[k] += p['stats'][k]
    by_status, rows_checked, rows_skipped, nfail, confirmed, nq = {}, 0, 0, 0, 0, 0
    for r in results:
        by_status[r['status']] = by_status.get(r['status'], 0) + 1
        rows_checked += r['rows_checked']
        rows_skipped += r['rows_skipped']
        nq += r['q']
        it = items[r['idx']]
        if r['status'] == 'fault':
            rep.broken.append(r.get('fault'))
        for fail in r['fails']:
            nfail += 1
            ok, detail = replay_fail(it, fail)
            sig = {'stage': 'shadow-price', 'obligation': fail['ob'], 'dir': fail.get('dir'), 'cmp': fail.get('cmp'), 'lm': canon(it['lm'])}
            if not ok:
                rep.broken.append({'why': 'did not reproduce', 'sig': sig})
                continue
            confirmed += 1
            rep.violation(sig, {'property': 'C20', 'lm': it['lm'], 'obligation': fail['ob'], 'failure': fail, 'confirmation': detail})
    if tw[0] > 0 and tw[1] == 0:
        rep.broken.append({'why': 'no must-fail twin detected', 'twins': tw})
    if rows_checked == 0:
        rep.broken.append({'why': 'no row qualified (vacuous run)'})
    evidence = {
        'level': 'translation_validation', 'tier': t, 'seed': sd,
        'coverage': {
            'programs': len(items), 'by_status': by_status, 'rows_checked': rows_checked, 'rows_skipped_degenerate': rows_skipped,
            'disagreements_checked': nq, 'queries': dict(stats, optimize_and_queries=nq),
            'obligations_per_program': ['optimum exists and is unique (z3 Optimize + unsat query)', 'per named row: for a symbolic delta in [-d0,d0] the optimum of the perturbed model is opt + p*delta (two queries, one with a quantifier alternation)',
                                        '|reported - p| <= 1e-4 (1+|p|)', 'unnamed rows report none, named rows report one'],
            'counterexamples_found': nfail, 'counterexamples_confirmed_against_real_code': confirmed,
            'must_fail_twins': {'tried': tw[0], 'detected': tw[1]},
            'samples': [it['lm'] for it in items[:3]], 'exhaustive': False,
            'family': 'seeded continuous L(3,3) with named rows, min/max, <= >= =, offsets',
            'functions_encoded': ['solve_real_lp_problem_clarabel (dual values via good_lp bridge collect_good_lp_duals)'],
            'solver': 'z3 %s (Optimize for the exact optimum)' % z3.get_version_string(), 'driver_build_s': round(build_s, 1), 'check_s': round(time.time() - t0, 1),
            'outside': ['degenerate or non-unique optima (filtered by the solver, counted)'],
        },
        'assumptions': ['Clarabel is an interior-point method: reported prices are compared with a 1e-4 relative tolerance'],
    }
    return rep.finish(evidence)


def replay_file(prop, path):
    common.build_driver()
    r = json.load(open(path))
    ok, detail = replay_fail({'lm': r['lm']}, r['failure'])
    print(json.dumps({'reproduces': ok, 'detail': detail}, indent=1, default=str)[:3000])
    if ok:
        print('VIOLATION property=C20 replay=%s' % path)
    return 1 if ok else 0


if __name__ == '__main__':
    sys.exit(main())
