"""C20: shadow prices are the sensitivities of the optimum.

For every continuous L-model with named rows whose optimum z3 proves unique and whose value
function is locally linear in a row's right-hand side, the price reported by the real Clarabel
entry point must equal the exact sensitivity.  The sensitivity statement itself is decided by
z3 on the parametric problem with a SYMBOLIC perturbation delta:
    for all delta in [-d0, d0], for all x:  LM[b_i + delta](x)  =>  obj(x) >= opt + p*delta   (min; <= for max)
    for all delta in [-d0, d0], exists x:   LM[b_i + delta](x) and obj(x) = opt + p*delta
with p the exact rational slope obtained from two exact re-solves."""
import copy, json, os, sys, time
from fractions import Fraction
import z3
import common, sem, lin, gen, zq, lmcheck
from common import run_driver, parallel, Report, tier, seed, fs, canon

QT = 10000
PTOL = Fraction(1, 10 ** 5)


def optimum(L, shift=None):
    """exact optimum by z3 Optimize; shift = (row index, Fraction) perturbs one rhs.  -> (status, value, point)"""
    L2 = L
    x = lmcheck.lm_env(L)
    o = z3.Optimize()
    o.set('timeout', QT)
    cs = lin.lin_rows_c(L, x, skip={shift[0]} if shift else None) + lin.lin_doms_c(L, x)
    if shift:
        i, d = shift
        a, c, b = lin.row_parts(L['rows'][i])
        lhs = z3.Sum([sem.Q(v) * x[n] for v, n in zip(a, lin.names(L)) if v != 0] + [z3.RealVal(0)])
        cs.append(sem.cmp_c(lhs, c, sem.Q(Fraction(b) + d)))
    o.add(*cs)
    g = lin.lin_obj(L, x)
    h = o.minimize(g) if L['dir'] == 'min' else o.maximize(g)
    r = o.check()
    if r != z3.sat:
        return ('infeasible' if r == z3.unsat else 'unknown'), None, None
    v = o.lower(h) if L['dir'] == 'min' else o.upper(h)
    if not z3.is_rational_value(v) and not z3.is_int_value(v):
        return 'unbounded', None, None
    m = o.model()
    pt = {n: zq.to_frac(m.eval(x[n], model_completion=True)) for n in x}
    return 'ok', zq.to_frac(v), pt


def judge(item, out):
    res = {'idx': item['idx'], 'fails': [], 'q': 0, 'unknown': [], 'status': 'ok', 'rows_checked': 0, 'rows_skipped': 0}
    L = out['lm']
    r = out.get('clarabel', {})
    if r.get('panic') or r.get('hang'):
        res['fails'].append({'ob': 'solver-panic-or-hang', 'point': None})
        return res
    st, opt, xstar = optimum(L)
    res['q'] += 1
    if st != 'ok':
        res['status'] = 'skip-' + st
        return res
    if not r.get('ok'):
        res['status'] = 'skip-solver-' + str(r.get('kind'))
        return res
    x = lmcheck.lm_env(L)
    LM = lin.lin_c(L, x)
    g = lin.lin_obj(L, x)
    v, _, _ = zq.query([LM, g == sem.Q(opt), z3.Or([x[n] != sem.Q(xstar[n]) for n in x])], timeout_ms=QT)
    res['q'] += 1
    if v != 'unsat':
        res['status'] = 'skip-optimum-not-unique'
        return res
    duals = {k: Fraction(float(v)) for k, v in r.get('duals', [])}
    names = [row.get('name') or '' for row in L['rows']]
    # unnamed rows report none; every named row reports one
    for k in duals:
        if k not in names:
            res['fails'].append({'ob': 'price-for-unknown-row', 'row': k, 'point': None})
    for i, nm in enumerate(names):
        if not nm:
            continue
        if names.count(nm) > 1:
            continue
        if nm not in duals:
            res['fails'].append({'ob': 'named-row-without-price', 'row': nm, 'point': None})
            continue
        p, d0 = exact_slope(L, i, opt, x, g, res)
        if p is None:
            res['rows_skipped'] += 1
            continue
        res['rows_checked'] += 1
        rep = duals[nm]
        if abs(rep - p) > PTOL * (1 + abs(p)) * 10:
            res['fails'].append({'ob': 'shadow-price-wrong', 'row': nm, 'row_index': i, 'reported': fs(float(rep)), 'exact': str(p), 'delta0': str(d0), 'dir': L['dir'], 'cmp': L['rows'][i]['c'], 'point': None})
    return res


def exact_slope(L, i, opt, x, g, res):
    """exact sensitivity of the optimum w.r.t. rhs of row i, proven for a symbolic delta; None if degenerate"""
    d0 = Fraction(1, 1024)
    for _ in range(3):
        s1, v1, _ = optimum(L, (i, d0))
        s2, v2, _ = optimum(L, (i, -d0))
        res['q'] += 2
        if s1 == 'ok' and s2 == 'ok' and (v1 - opt) == -(v2 - opt):
            p = (v1 - opt) / d0
            if sensitivity_holds(L, i, opt, p, d0, x, g, res):
                return p, d0
        d0 = d0 / 16
    return None, None


def sensitivity_holds(L, i, opt, p, d0, x, g, res):
    delta = z3.Real('delta')
    rng = [delta >= sem.Q(-d0), delta <= sem.Q(d0)]
    a, c, b = lin.row_parts(L['rows'][i])
    lhs = z3.Sum([sem.Q(v) * x[n] for v, n in zip(a, lin.names(L)) if v != 0] + [z3.RealVal(0)])
    rhs = sem.Q(b) + delta
    row = lhs <= rhs if c == '<=' else (lhs >= rhs if c == '>=' else lhs == rhs)
    LMd = z3.And(lin.lin_rows_c(L, x, skip={i}) + lin.lin_doms_c(L, x) + [row])
    line = sem.Q(opt) + sem.Q(p) * delta
    worse = (g < line) if L['dir'] == 'min' else (g > line)
    v, _, _ = zq.query(rng + [LMd, worse], timeout_ms=QT)
    res['q'] += 1
    if v != 'unsat':
        return False
    xs = [x[n] for n in x]
    v, _, _ = zq.query(rng + [z3.ForAll(xs, z3.Not(z3.And(LMd, g == line)))], timeout_ms=QT)
    res['q'] += 1
    return v == 'unsat'


def lm_to_builder_model(L):
    """the same model as builder calls: rows become expressions a1*v1 + a2*v2 + ... cmp b"""
    names = [v[0] for v in L['vars']]
    mp = {n: 'v%d' % i for i, n in enumerate(names)}

    def lin_exp(coefs):
        terms = [['*', ['num', repr(float(a))], ['var', mp[n]]] for a, n in zip(coefs, names) if float(a) != 0]
        if not terms:
            return ['num', '0.0']
        e = terms[0]
        for t in terms[1:]:
            e = ['+', e, t]
        return e
    cons = []
    for r in L['rows']:
        c = {'l': lin_exp(r['a']), 'c': r['c'], 'r': ['num', repr(float(r['b']))]}
        if r.get('name'):
            c['name'] = r['name']
        cons.append(c)
    obj = lin_exp(L['obj'])
    if float(L.get('off', 0) or 0) != 0:
        obj = ['+', obj, ['num', repr(float(L['off']))]]
    return {'vars': [[mp[v[0]], v[1]] for v in L['vars']], 'obj': {'dir': L['dir'], 'e': obj}, 'cons': cons}


def judge_builder(item, out, res):
    """the same question through the builder: ModelBuilder -> Linearizer -> Clarabel -> BuilderSolution::shadow_price.
    The exact sensitivity is that of the SOURCE model (what the user wrote)."""
    L = out['lm']
    b = item.get('builder_out') or {}
    cl = b.get('clarabel') or {}
    if not cl.get('ok'):
        return
    st, opt, xstar = optimum(L)
    if st != 'ok':
        return
    x = lmcheck.lm_env(L)
    g = lin.lin_obj(L, x)
    v, _, _ = zq.query([lin.lin_c(L, x), g == sem.Q(opt), z3.Or([x[n] != sem.Q(xstar[n]) for n in x])], timeout_ms=QT)
    res['q'] += 2
    if v != 'unsat':
        return
    prices = dict((n, p) for n, p in cl['prices'])
    names = [row.get('name') or '' for row in L['rows']]
    Lc = (b.get('lin') or {}).get('ok')
    for i, nm in enumerate(names):
        if not nm or names.count(nm) > 1:
            continue
        p, d0 = exact_slope(L, i, opt, x, g, res)
        if p is None:
            continue
        res['builder_rows_checked'] = res.get('builder_rows_checked', 0) + 1
        rep = prices.get(nm)
        if rep is None:
            if all(float(a) == 0 for a in L['rows'][i]['a']):
                continue   # a constant row is folded away by the compiler; it has no price to report
            res['fails'].append({'ob': 'builder-named-row-without-price', 'row': nm, 'point': None})
            continue
        rep = Fraction(float(rep))
        if abs(rep - p) > PTOL * (1 + abs(p)) * 10:
            cause = 'other'
            # attribution: did the ranges the linearizer derived make this row degenerate in the compiled model?
            if Lc is not None:
                j = [k for k, r in enumerate(Lc['rows']) if r.get('name') == nm]
                if len(j) == 1:
                    so, vo, _ = optimum(Lc)
                    s1, v1, _ = optimum(Lc, (j[0], d0))
                    s2, v2, _ = optimum(Lc, (j[0], -d0))
                    res['q'] += 3
                    same_as_source = (so == s1 == s2 == 'ok' and (v1 - vo) == p * d0 and (v2 - vo) == -p * d0)
                    if not same_as_source:
                        # exact sensitivity of the COMPILED model differs from the source model's (kink, or the
                        # perturbed compiled model is infeasible because a derived range froze the variable).
                        # That is the known cause only if the compiled ROWS are right: with the declared ranges put
                        # back in place of the derived ones the compiled model must have the source's sensitivity.
                        import copy as _copy
                        Ld = _copy.deepcopy(Lc)
                        # (the builder model names the variables v0, v1, ... in the order of L's columns)
                        declared = dict(('v%d' % k, d) for k, (n, d) in enumerate(L['vars']))
                        declared.update(dict((n, d) for n, d in L['vars']))
                        Ld['vars'] = [[n, declared.get(n, d)] for n, d in Ld['vars']]
                        do, dvo, _ = optimum(Ld)
                        d1, dv1, _ = optimum(Ld, (j[0], d0))
                        d2, dv2, _ = optimum(Ld, (j[0], -d0))
                        res['q'] += 3
                        rows_right = (do == d1 == d2 == 'ok' and (dv1 - dvo) == p * d0 and (dv2 - dvo) == -p * d0)
                        if rows_right:
                            cause = 'derived-variable-range-makes-the-named-row-degenerate'
            res['fails'].append({'ob': 'builder-shadow-price-wrong', 'row': nm, 'reported': fs(float(rep)), 'exact': str(p), 'cause': cause,
                                 'dir': L['dir'], 'cmp': L['rows'][i]['c'], 'point': None})


def work(chunk):
    zq.reset_stats()
    jobs = []
    for it in chunk:
        jobs.append({'cmd': 'lm', 'lm': it['lm'], 'ops': ['clarabel']})
        if it.get('builder'):
            jobs.append({'cmd': 'builder', 'model': lm_to_builder_model(it['lm']), 'order': 'obj_last',
                         'shadow_prices': [r.get('name') for r in it['lm']['rows'] if r.get('name')]})
    allouts = run_driver(jobs)
    outs, k = [], 0
    for it in chunk:
        outs.append(allouts[k])
        k += 1
        if it.get('builder'):
            it['builder_out'] = allouts[k]
            k += 1
    results, tw = [], [0, 0]
    for it, out in zip(chunk, outs):
        try:
            r = judge(it, out)
            if it.get('builder') and r['status'] == 'ok':
                judge_builder(it, out, r)
            results.append(r)
            if r['rows_checked'] and it['idx'] % 5 == 0:
                m = copy.deepcopy(out)
                for d in m['clarabel']['duals']:
                    d[1] = fs(float(d[1]) + 0.5)
                r2 = judge(it, m)
                tw[0] += 1
                tw[1] += 1 if r2['fails'] else 0
                m = copy.deepcopy(out)
                for d in m['clarabel']['duals']:
                    d[1] = fs(-float(d[1]))
                if any(float(d[1]) != 0 for d in m['clarabel']['duals']):
                    r2 = judge(it, m)
                    tw[0] += 1
                    tw[1] += 1 if r2['fails'] else 0
        except Exception:
            import traceback
            results.append({'idx': it['idx'], 'fails': [], 'q': 0, 'unknown': [], 'status': 'fault', 'fault': traceback.format_exc()[-800:], 'rows_checked': 0, 'rows_skipped': 0})
    return [{'results': results, 'twins': tw, 'stats': dict(zq.STATS)}]


def family(t, sd):
    n = 8000 if t == 'quick' else 60000
    kinds = [gen.D('NNReal', 0, 'inf'), gen.D('Real', '-inf', 'inf'), gen.D('Real', -2, 3), gen.D('NNReal', 0, 4), gen.D('Real', '-inf', 3), gen.D('NNReal', 1, 'inf')]
    import random
    r = random.Random(81 + (sd if t == 'thorough' else 0))
    specs = []
    for _ in range(n):
        nv = r.randint(1, 3)
        nr = r.randint(1, 3)
        ks = [r.choice(kinds) for _ in range(nv)]
        rows = [([r.choice([0, 1, -1, 2, -2, 0.5, 3, 4, 1.5]) for _ in range(nv)], r.choice(['<=', '>=', '=', '<=', '>=']), r.choice([0, 1, -1, 2, 3, 0.5, 4, -3, 2.5])) for _ in range(nr)]
        obj = [r.choice([1, -1, 2, -2, 0.5, 3, 0]) for _ in range(nv)]
        names = [('r%d' % i) if r.random() < 0.85 else '' for i in range(nr)]
        specs.append(gen.lm_spec(ks, rows, obj, r.choice(['min', 'max']), r.choice([0, 0, 1.5]), names))
    lim = os.environ.get('VERIF_LIMIT')
    if lim:
        specs = specs[::max(1, len(specs) // int(lim))]
    return [{'idx': i, 'lm': s, 'builder': (i % 3 == 0 and not s.get('off'))} for i, s in enumerate(specs)]


def replay_fail(it, fail):
    if fail['ob'].startswith('builder-'):
        r = work([dict(it, idx=0, builder=True)])[0]['results'][0]
        same = [f for f in r['fails'] if f['ob'] == fail['ob'] and f.get('row') == fail.get('row')]
        if not same:
            return False, {'why': 'not reproduced'}
        return True, {'builder_model': lm_to_builder_model(it['lm']), 'failure': same[0]}
    out = run_driver([{'cmd': 'lm', 'lm': it['lm'], 'ops': ['clarabel']}])[0]
    r = judge(dict(it, idx=0), out)
    same = [f for f in r['fails'] if f['ob'] == fail['ob'] and f.get('row') == fail.get('row')]
    if not same:
        return False, {'why': 'not reproduced'}
    return True, {'real_output': out.get('clarabel'), 'failure': same[0]}


def main(prop='C20'):
    t, sd = tier(), seed()
    rep = Report('C20')
    build_s = common.build_driver()
    items = family(t, sd)
    t0 = time.time()
    parts = parallel(work, items, chunk=25)
    results, tw = [], [0, 0]
    stats = dict.fromkeys(zq.STATS, 0)
    for p in parts:
        results += p['results']
        tw[0] += p['twins'][0]
        tw[1] += p['twins'][1]
        for k in stats:
            stats[k] += p['stats'][k]
    by_status, rows_checked, rows_skipped, nfail, confirmed, nq = {}, 0, 0, 0, 0, 0
    brows = 0
    for r in results:
        by_status[r['status']] = by_status.get(r['status'], 0) + 1
        rows_checked += r['rows_checked']
        rows_skipped += r['rows_skipped']
        brows += r.get('builder_rows_checked', 0)
        nq += r['q']
        it = items[r['idx']]
        if r['status'] == 'fault':
            rep.broken.append(r.get('fault'))
        for fail in r['fails']:
            nfail += 1
            ok, detail = replay_fail(it, fail)
            sig = {'stage': 'shadow-price', 'obligation': fail['ob'], 'cause': fail.get('cause'), 'dir': fail.get('dir'), 'cmp': fail.get('cmp'), 'lm': canon(it['lm'])}
            if not ok:
                rep.broken.append({'why': 'did not reproduce', 'sig': sig})
                continue
            confirmed += 1
            rep.violation(sig, {'property': 'C20', 'lm': it['lm'], 'obligation': fail['ob'], 'failure': fail, 'confirmation': detail})
    if tw[0] > 0 and tw[1] == 0:
        rep.broken.append({'why': 'no must-fail twin detected', 'twins': tw})
    if rows_checked == 0:
        rep.broken.append({'why': 'no row qualified (vacuous run)'})
    evidence = {
        'level': 'translation_validation', 'tier': t, 'seed': sd,
        'coverage': {
            'programs': len(items), 'by_status': by_status, 'rows_checked': rows_checked, 'rows_skipped_degenerate': rows_skipped, 'builder_rows_checked': brows,
            'disagreements_checked': nq, 'queries': dict(stats, optimize_and_queries=nq),
            'obligations_per_program': ['optimum exists and is unique (z3 Optimize + unsat query)', 'per named row: for a symbolic delta in [-d0,d0] the optimum of the perturbed model is opt + p*delta (two queries, one with a quantifier alternation)',
                                        '|reported - p| <= 1e-4 (1+|p|)', 'unnamed rows report none, named rows report one'],
            'counterexamples_found': nfail, 'counterexamples_confirmed_against_real_code': confirmed,
            'must_fail_twins': {'tried': tw[0], 'detected': tw[1]},
            'samples': [it['lm'] for it in items[:3]], 'exhaustive': False,
            'family': 'seeded continuous L(3,3) with named rows, min/max, <= >= =, offsets',
            'functions_encoded': ['solve_real_lp_problem_clarabel (dual values via good_lp bridge collect_good_lp_duals)', 'ModelBuilder::solve_with(Clarabel) + BuilderSolution::shadow_price (through Linearizer::linearize)'],
            'solver': 'z3 %s (Optimize for the exact optimum)' % z3.get_version_string(), 'driver_build_s': round(build_s, 1), 'check_s': round(time.time() - t0, 1),
            'outside': ['degenerate or non-unique optima (filtered by the solver, counted)'],
        },
        'assumptions': ['Clarabel is an interior-point method: reported prices are compared with a 1e-4 relative tolerance'],
    }
    return rep.finish(evidence)


def replay_file(prop, path):
    common.build_driver()
    r = json.load(open(path))
    ok, detail = replay_fail({'lm': r['lm']}, r['failure'])
    print(json.dumps({'reproduces': ok, 'detail': detail}, indent=1, default=str)[:3000])
    if ok:
        print('VIOLATION property=C20 replay=%s' % path)
    return 1 if ok else 0


if __name__ == '__main__':
    sys.exit(main())
