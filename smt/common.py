"""Shared infrastructure: driver build/run, exact float transport, workers, evidence,
known findings, replay files, solver cross-check.  No property logic here."""
import json, os, subprocess, sys, time, hashlib, shutil, tempfile, traceback
from fractions import Fraction
from multiprocessing import Pool

VERIF = os.path.dirname(os.path.dirname(os.path.abspath(__file__)))
REPO = os.environ.get('VERIF_REPO', '/repo')
CRATE = os.path.join(REPO, 'packages', 'rooc')
WORK = os.path.join(VERIF, '.work')
# VERIF_REPO (background runs on a snapshot of the repository only; registered commands always use /repo)
ALT = REPO != '/repo'
DRIVER = os.path.join(WORK, 'target-alt' if ALT else 'target', 'debug', 'rooc-verif-driver')
NPROC = int(os.environ.get('VERIF_JOBS', '16'))

INF = float('inf')


# ------------------------------------------------------------------ exact numbers
def pf(s):
    """driver float string -> python float (exact)"""
    if isinstance(s, (int, float)):
        return float(s)
    return float(s)


def fs(x):
    """python number -> string the driver parses exactly"""
    if isinstance(x, str):
        return x
    if isinstance(x, Fraction):
        x = float(x)
    x = float(x)
    if x != x:
        return 'NaN'
    if x == INF:
        return 'inf'
    if x == -INF:
        return '-inf'
    return repr(x)


def is_finite(x):
    return x == x and x not in (INF, -INF)


def frac(x):
    return Fraction(x)  # exact for floats


# ------------------------------------------------------------------ driver
def build_driver(log=None):
    """(Re)build the driver against /repo's CURRENT working tree. Returns seconds."""
    t = time.time()
    os.makedirs(WORK, exist_ok=True)
    drv = os.path.join(VERIF, 'driver')
    if ALT:
        alt = os.path.join(WORK, 'driver-alt')
        shutil.copytree(drv, alt, dirs_exist_ok=True, ignore=shutil.ignore_patterns('target'))
        ct = open(os.path.join(alt, 'Cargo.toml')).read().replace('/repo/packages/rooc', CRATE)
        open(os.path.join(alt, 'Cargo.toml'), 'w').write(ct)
        drv = alt
    lock_src = os.path.join(CRATE, 'Cargo.lock')
    if os.path.exists(lock_src):
        shutil.copyfile(lock_src, os.path.join(drv, 'Cargo.lock'))
    env = dict(os.environ, CARGO_NET_OFFLINE='true', CARGO_TARGET_DIR=os.path.join(WORK, 'target-alt' if ALT else 'target'))
    p = subprocess.run(['cargo', 'build', '--offline', '--quiet'], cwd=drv, env=env,
                       capture_output=True, text=True)
    if p.returncode != 0:
        sys.stderr.write(p.stderr[-4000:])
        raise SystemExit(2)
    return time.time() - t


def run_driver(jobs, timeout=None, per_job=0.5, base=20):
    """Run jobs (list of dicts) through one driver process; returns list of results.
    A driver that dies or hangs is bisected down to the culprit job, which is reported as
    {'crash': True} / {'hang': True} (data for the checks, never silently dropped)."""
    if not jobs:
        return []
    tmo = timeout or (base + per_job * len(jobs))
    inp = '\n'.join(json.dumps(j) for j in jobs) + '\n'
    try:
        p = subprocess.run([DRIVER], input=inp, capture_output=True, text=True, timeout=tmo)
    except subprocess.TimeoutExpired:
        if len(jobs) == 1:
            return [{'hang': True, 'timeout_s': tmo}]
        mid = len(jobs) // 2
        return run_driver(jobs[:mid], timeout, per_job, base) + run_driver(jobs[mid:], timeout, per_job, base)
    lines = [l for l in p.stdout.split('\n') if l.strip()]
    if lines and len(lines) < len(jobs) and '"_restart":true' in lines[-1]:
        # the driver abandoned a hung solver thread and stopped: continue in a fresh process
        return [json.loads(l) for l in lines] + run_driver(jobs[len(lines):], timeout, per_job, base)
    if len(lines) != len(jobs):
        # the driver died (abort / stack overflow): find the culprit by bisection
        if len(jobs) == 1:
            return [{'crash': True, 'returncode': p.returncode, 'stderr': p.stderr[-500:]}]
        mid = len(jobs) // 2
        return run_driver(jobs[:mid], timeout, per_job, base) + run_driver(jobs[mid:], timeout, per_job, base)
    return [json.loads(l) for l in lines]


def chunks(seq, n):
    k = max(1, (len(seq) + n - 1) // n)
    return [seq[i:i + k] for i in range(0, len(seq), k)]


def parallel(fn, items, nproc=None, chunk=None):
    """Apply fn(list_of_items)->list over chunks in a process pool, keep order."""
    nproc = nproc or NPROC
    if not items:
        return []
    if chunk is None:
        chunk = max(1, min(200, (len(items) + nproc * 4 - 1) // (nproc * 4)))
    parts = [items[i:i + chunk] for i in range(0, len(items), chunk)]
    if nproc == 1 or len(parts) == 1:
        out = []
        for p in parts:
            out.extend(fn(p))
        return out
    with Pool(nproc) as pool:
        res = pool.map(fn, parts, chunksize=1)
    out = []
    for r in res:
        out.extend(r)
    return out


# ------------------------------------------------------------------ tier / seed
def tier():
    t = os.environ.get('VERIF_TIER', '')
    if len(sys.argv) > 2 and sys.argv[2] in ('quick', 'thorough'):
        t = sys.argv[2]
    return t if t in ('quick', 'thorough') else 'quick'


def seed():
    try:
        return int(os.environ.get('VERIF_SEED', '1'))
    except ValueError:
        return 1


# ------------------------------------------------------------------ known findings
def load_known():
    """known_findings.txt: 'finding: {json}' lines are open findings (suppressed, reported as
    KNOWN-FINDING); 'fixed: property=<id> <commit> <what failed>' lines are history and suppress nothing."""
    path = os.path.join(VERIF, 'known_findings.txt')
    out = []
    if os.path.exists(path):
        for l in open(path):
            l = l.strip()
            if l.startswith('finding:'):
                out.append(json.loads(l[len('finding:'):]))
    return out


def canon(obj):
    return json.dumps(obj, sort_keys=True, separators=(',', ':'))


def key_hash(obj):
    return hashlib.sha256(canon(obj).encode()).hexdigest()[:16]


class Report:
    """Collects violations / known findings / inconclusives of one check run."""

    def __init__(self, pid):
        self.pid = pid
        self.t0 = time.time()
        self.known = [k for k in load_known() if k.get('property') == pid]
        self.known_hit = {}
        self.violations = []
        self.inconclusive = []
        self.broken = []
        self.solver_s = 0.0

    def match_known(self, sig):
        """sig: dict describing the failing case. A known finding matches when every key
        of its 'match' dict equals the signature's value."""
        for k in self.known:
            m = k.get('match', {})
            if all(sig.get(a) == b for a, b in m.items()):
                return k
        return None

    def violation(self, sig, replay):
        k = self.match_known(sig)
        if k is not None:
            self.known_hit.setdefault(k['id'], []).append(sig)
            return False
        path = write_replay(self.pid, replay)
        self.violations.append((sig, path))
        return True

    def finish(self, evidence):
        """print lines, write evidence, return exit code"""
        for k in self.known:
            if k['id'] in self.known_hit:
                print('KNOWN-FINDING: property=%s %s (%s; %d instance(s) this run)' % (
                    self.pid, k['id'], k['what'], len(self.known_hit[k['id']])))
        for sig, path in self.violations[:50]:
            print('VIOLATION property=%s replay=%s' % (self.pid, path))
        if len(self.violations) > 50:
            print('... %d more violations' % (len(self.violations) - 50))
        evidence['property_id'] = self.pid
        evidence.setdefault('tier', tier())
        evidence.setdefault('seed', seed())
        evidence['wall_s'] = round(time.time() - self.t0, 2)
        evidence['violations'] = len(self.violations)
        cov = evidence.setdefault('coverage', {})
        q = cov.get('queries')
        if isinstance(q, dict) and q.get('xcheck_disagree', 0) > 0:
            self.broken.append({'why': 'another solver (z3 4.8.12 / cvc5) disagreed with a verdict; see .work/xdisagree/', 'count': q['xcheck_disagree']})
        cov['known_findings_hit'] = {k: len(v) for k, v in self.known_hit.items()}
        cov['inconclusive'] = len(self.inconclusive)
        if self.inconclusive:
            cov['inconclusive_samples'] = self.inconclusive[:5]
        if self.broken:
            cov['machinery_faults'] = self.broken[:10]
        os.makedirs(os.path.join(VERIF, 'evidence'), exist_ok=True)
        with open(os.path.join(VERIF, 'evidence', self.pid + '.json'), 'w') as fh:
            json.dump(evidence, fh, indent=1, sort_keys=True)
            fh.write('\n')
        if self.violations:
            return 1
        if self.broken:
            print('INCONCLUSIVE property=%s machinery fault: %s' % (self.pid, str(self.broken[0])[:300]))
            return 2
        return 0


def write_replay(pid, replay):
    d = os.path.join(VERIF, 'replays', pid)
    os.makedirs(d, exist_ok=True)
    path = os.path.join(d, key_hash(replay) + '.json')
    with open(path, 'w') as fh:
        json.dump(replay, fh, indent=1, sort_keys=True)
        fh.write('\n')
    return path


# ------------------------------------------------------------------ cross-check with other solvers
def cross_check_smt2(smt2_text, expect, timeout=20):
    """Run /usr/bin/z3 (4.8.12) and cvc5 on an SMT-LIB2 text; returns dict name->verdict.
    Any '(error' line makes that solver's verdict 'error'."""
    out = {}
    with tempfile.NamedTemporaryFile('w', suffix='.smt2', delete=False, dir=WORK) as fh:
        fh.write(smt2_text)
        path = fh.name
    try:
        for name, cmd in (('z3-4.8.12', ['/usr/bin/z3', '-T:%d' % timeout, path]),
                          ('cvc5', ['cvc5', '--lang', 'smt2', '--tlimit=%d' % (timeout * 1000), path])):
            try:
                p = subprocess.run(cmd, capture_output=True, text=True, timeout=timeout + 5)
                txt = p.stdout + p.stderr
                if '(error' in txt:
                    out[name] = 'error'
                else:
                    first = [l.strip() for l in p.stdout.split('\n') if l.strip()]
                    out[name] = first[0] if first else 'none'
            except subprocess.TimeoutExpired:
                out[name] = 'timeout'
    finally:
        os.unlink(path)
    return out
