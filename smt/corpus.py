"""Corpus of ROOC programs found in the repository itself (tests, examples, docs): every string literal
that contains a subject-to keyword.  Used as additional members of the text families (C11, C12, C16)."""
import glob, os, re
import common


def rust_string_literals(src):
    out = []
    for m in re.finditer(r'r(#+)"(.*?)"\1', src, re.S):
        out.append(m.group(2))
    for m in re.finditer(r'(?<![r#])"((?:[^"\\]|\\.)*)"', src, re.S):
        s = m.group(1)
        if '\\' in s:
            try:
                s = bytes(s, 'utf-8').decode('unicode_escape')
            except Exception:
                continue
        out.append(s)
    return out


def programs():
    root = common.CRATE
    files = glob.glob(os.path.join(root, 'tests', '*.rs')) + glob.glob(os.path.join(root, 'examples', '*.rs')) + \
        glob.glob(os.path.join(root, 'src', '**', '*.rs'), recursive=True) + [os.path.join(root, 'README.md'), os.path.join(common.REPO, 'README.md')]
    seen, out = set(), []
    for f in sorted(files):
        try:
            src = open(f, errors='replace').read()
        except OSError:
            continue
        cands = rust_string_literals(src) if f.endswith('.rs') else re.findall(r'```[a-z]*\n(.*?)```', src, re.S)
        # doc-comment programs: strip the leading '///'
        for block in re.findall(r'((?:^\s*///.*\n)+)', src, re.M):
            cands.append('\n'.join(re.sub(r'^\s*/// ?', '', l) for l in block.split('\n')))
        for s in cands:
            if not re.search(r'(?im)^\s*(s\.t\.|subject to)\s*$', s):
                continue
            s = s.strip('\n')
            if len(s) > 4000 or s in seen:
                continue
            seen.add(s)
            out.append({'src': s, 'file': os.path.relpath(f, common.REPO)})
    return out


if __name__ == '__main__':
    ps = programs()
    print(len(ps))
    for p in ps[:3]:
        print(p['file'])
        print(p['src'])
        print('---')
