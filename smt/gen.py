"""Program families (deterministic).  VERIF_SEED only selects the seeded extensions.

Expression trees are the tagged lists of sem.py.  Every family is described in DESIGN §2.3;
the counts discharged are measured by the checks and written to the evidence.
"""
import itertools, random
from fractions import Fraction

# dyadic source constants: exact in f64, closed under the few operations the compiler performs
CONST = [0, 1, 2, 3, 4, -1, -2, -3, -4, 0.5, -0.5, 0.25, -0.25, 1.5, -1.5]
MULS = [0, 1, 2, 4, -1, -2, -4, 0.5, -0.5, 0.25]
DIVS = [1, 2, 4, -1, -2, 0.5, -0.5]


def num(x):
    x = float(x)
    return ['num', repr(x)]


def var(n):
    return ['var', n]


# ------------------------------------------------------------------ E1+ (typed, for the linearizer)
def d1_numeric(nleaves, bleaves, consts, muls, divs, nary3=True):
    """every depth-1 numeric-valued tree over the leaves"""
    out = []
    allv = nleaves + bleaves
    for l in allv:
        out.append(['neg', l])
        out.append(['abs', l])
        for c in muls:
            out.append(['*', num(c), l])
            out.append(['*', l, num(c)])
        for c in divs:
            out.append(['/', l, num(c)])
    operands = allv + [num(c) for c in consts]
    for a, b in itertools.product(operands, repeat=2):
        if a[0] == 'num' and b[0] == 'num':
            continue
        out.append(['+', a, b])
        out.append(['-', a, b])
    for a, b in itertools.combinations_with_replacement(operands, 2):
        if a[0] == 'num' and b[0] == 'num':
            continue
        out.append(['min', [a, b]])
        out.append(['max', [a, b]])
    if nary3:
        for a, b, c in itertools.combinations(operands, 3):
            if sum(1 for t in (a, b, c) if t[0] == 'num') >= 2:
                continue
            out.append(['min', [a, b, c]])
            out.append(['max', [a, b, c]])
    return out


def d1_logic(bleaves, lconsts=(), nary3=True):
    """every depth-1 logic-valued tree over Boolean leaves (and optional 0/1 literals)"""
    ops = bleaves + [num(c) for c in lconsts]
    out = []
    for a in ops:
        if a[0] != 'num':
            out.append(['not', a])
    for a, b in itertools.product(ops, repeat=2):
        if a[0] == 'num' and b[0] == 'num':
            continue
        out.append(['xor', a, b])
        out.append(['implies', a, b])
        out.append(['iff', a, b])
    for a, b in itertools.combinations_with_replacement(ops, 2):
        if a[0] == 'num' and b[0] == 'num':
            continue
        out.append(['and', [a, b]])
        out.append(['or', [a, b]])
    if nary3:
        for a, b, c in itertools.combinations_with_replacement(ops, 3):
            if sum(1 for t in (a, b, c) if t[0] == 'num') >= 2 or (a == b == c):
                continue
            out.append(['and', [a, b, c]])
            out.append(['or', [a, b, c]])
    return out


def one_above_numeric(inner, nleaves, bleaves, consts, muls, divs):
    """one numeric operator above `inner` (a depth-1 tree, numeric or logic valued) with leaf siblings"""
    out = []
    sib = nleaves + bleaves + [num(c) for c in consts]
    out.append(['neg', inner])
    out.append(['abs', inner])
    for c in muls:
        out.append(['*', num(c), inner])
        if c < 0 or c == muls[0]:
            out.append(['*', inner, num(c)])   # the constant on the right takes a different branch of the linearizer
    for c in divs:
        out.append(['/', inner, num(c)])
    for s in sib:
        out.append(['+', inner, s])
        out.append(['-', inner, s])
        out.append(['-', s, inner])
        out.append(['min', [inner, s]])
        out.append(['max', [s, inner]])
    for a, b in itertools.combinations(sib, 2):
        if a[0] == 'num' and b[0] == 'num':
            continue
        out.append(['min', [a, inner, b]])
        out.append(['max', [inner, a, b]])
    return out


def one_above_logic(inner, bleaves):
    """one logic operator above a logic-valued depth-1 tree with Boolean leaf siblings"""
    out = [['not', inner]]
    for s in bleaves:
        out.append(['and', [inner, s]])
        out.append(['or', [s, inner]])
        out.append(['xor', inner, s])
        out.append(['implies', inner, s])
        out.append(['implies', s, inner])
        out.append(['iff', s, inner])
    for a, b in itertools.combinations(bleaves, 2):
        out.append(['and', [a, inner, b]])
        out.append(['or', [inner, a, b]])
    return out


def e1plus_typed(level):
    """(numeric trees, logic trees) of the E1+ family.  level 0: reduced alphabet (quick tier),
    level 1: fuller alphabet (thorough tier)."""
    x, y, p, q = var('x'), var('y'), var('p'), var('q')
    if level == 0:
        # 0 and 1 are the identity / absorbing elements every folding rule special-cases
        consts, muls, divs = [0, 1, 2, -1, 0.5], [2, -1, 0.5, 0, 1], [2, -0.5, 1]
        n3 = False
    else:
        consts, muls, divs = [0, 1, 2, -1, 0.5, -1.5, 4], [0, 1, 2, -1, -2, 0.5, -0.25, 4], [1, 2, -1, 0.5, -0.5, 4]
        n3 = True
    nl, bl = [x, y], [p, q]
    d0n = nl + [num(c) for c in consts]
    d1n = d1_numeric(nl, [p], consts, muls, divs, nary3=True)
    d1b = d1_logic(bl, (0, 1) if level else (), nary3=True)
    nums = list(d0n) + d1n
    logs = list(bl) + d1b
    inner_n = d1n if level else [e for i, e in enumerate(d1n) if keep_inner(e)]
    for inner in inner_n:
        nums += one_above_numeric(inner, nl, [p] if level else [], consts if level else consts[1:3], muls if level else muls[:3], divs[:2] if not level else divs[:3])
    for inner in d1b:
        nums += one_above_numeric(inner, nl[:1], [], consts[:1], muls[:2] if not level else muls[:4], divs[:1])
        logs += one_above_logic(inner, bl)
    return dedup(nums), dedup(logs)


def keep_inner(e):
    """quick tier: depth-1 trees that become inner nodes — one representative per operator/operand shape"""
    t = e[0]
    if t in ('neg', 'abs'):
        return True
    if t in ('*', '/'):
        return True
    if t in ('+', '-'):
        a, b = e[1], e[2]
        return not (a[0] == 'num' and b[0] == 'num') and (a[0] == 'var' or b[0] == 'var') and a != b
    if t in ('min', 'max'):
        ops = e[1]
        return sum(1 for o in ops if o[0] == 'var') >= 1 and len(ops) <= 3 and len({str(o) for o in ops}) == len(ops)
    return True


def dedup(xs):
    seen, out = set(), []
    for x in xs:
        k = str(x)
        if k not in seen:
            seen.add(k)
            out.append(x)
    return out


# ------------------------------------------------------------------ domains
def D(k, lo=None, hi=None):
    if k == 'Boolean':
        return {'k': 'Boolean'}
    if k == 'Int':
        return {'k': 'Int', 'lo': int(lo), 'hi': int(hi)}
    return {'k': k, 'lo': fstr(lo), 'hi': fstr(hi)}


def fstr(x):
    if isinstance(x, str):
        return x
    x = float(x)
    if x == float('inf'):
        return 'inf'
    if x == float('-inf'):
        return '-inf'
    return repr(x)


# profiles for the two numeric variables x, y: (domain x, domain y, extra affine rows giving derived bounds)
def row(l, c, r):
    return {'l': l, 'c': c, 'r': r}


PROFILES = [
    ('straddle', D('Real', -2, 3), D('Real', -1.5, 4), []),
    ('signed', D('NNReal', 0, 4), D('Real', -3, -1), []),
    ('int', D('Int', -3, 4), D('Int', 0, 2), []),
    ('derived', D('Real', '-inf', 'inf'), D('Real', '-inf', 3),
     [row(var('x'), '>=', num(-2)), row(var('x'), '<=', num(3)), row(var('y'), '>=', num(-1))]),
    ('mixed', D('Int', -2, 2), D('Real', 0, 1), []),
    ('bool-num', D('Boolean'), D('Real', -2, 3), []),
    ('derived2', D('Real', '-inf', 'inf'), D('NNReal', 0, 'inf'),
     [row(['*', num(2), var('x')], '<=', num(6)), row(['neg', var('x')], '<=', num(2)),
      row(['+', var('x'), var('y')], '<=', num(5))]),
    ('unbounded', D('Real', '-inf', 'inf'), D('NNReal', 0, 'inf'), []),
    # both sign-known non-positive: sign-known abs shortcuts and operand pruning on the negative side
    ('negative', D('Real', -3, 0), D('Real', -4, -1), []),
    ('neg-int', D('Int', -4, -1), D('Real', -2, 0), []),
    # degenerate ranges: a variable fixed by its declaration, an integer range with a single point
    ('fixed', D('Real', 2, 2), D('Int', -1, -1), []),
    ('fixed0', D('NNReal', 0, 0), D('Real', -0.5, 0.5), []),
]


def used_vars(model):
    from sem import variables
    acc = []
    variables(model['obj']['e'], acc)
    for c in model['cons']:
        if 'assert' in c:
            variables(c['assert'], acc)
        else:
            variables(c['l'], acc)
            variables(c['r'], acc)
    return acc


def mk_model(objdir, obje, cons, doms):
    """declare exactly the variables that occur (the compiler drops unused declarations)"""
    m = {'obj': {'dir': objdir, 'e': obje}, 'cons': cons, 'vars': []}
    used = used_vars(m)
    m['vars'] = [[n, doms[n]] for n in sorted(used)]
    return m


def m1_family(level):
    """single-constraint models, exhaustive over E1+ x comparison x (rotating) profile and rhs."""
    nums, logs = e1plus_typed(level)
    ks = [0, 1, -1, 2, 0.5]
    out = []
    i = 0
    for e in nums:
        for ci, cmp_ in enumerate(('<=', '>=', '=')):
            reps = 2 if level else 1
            for r in range(reps):
                pname, dx, dy, extra = PROFILES[(i + r * 3) % len(PROFILES)]
                k = ks[(i // 3 + ci + r) % len(ks)]
                doms = {'x': dx, 'y': dy, 'p': D('Boolean'), 'q': D('Boolean')}
                # every fifth model compares with a variable instead of a constant
                rhs_e = var('y') if (i + r) % 5 == 4 else num(k)
                cons = [row(e, cmp_, rhs_e)] + extra
                out.append({'fam': 'M1c', 'profile': pname, 'model': mk_model('min', ['+', var('x'), var('y')] if 'x' in str(e) or True else var('x'), cons, doms)})
            i += 1
    # sign-known operands: every expression with an abs / min / max in it under EVERY profile in which the sign of
    # the operand is decided by the domains (the compiler takes shortcuts there), with every comparison; the rotating
    # profile above meets such a combination only by coincidence of indexes
    sign_profiles = [pr for pr in PROFILES if pr[0] in ('negative', 'neg-int', 'signed')] + [('positive', D('Real', 0, 3), D('Real', 1, 4), [])]
    j = 0
    for e in nums:
        se = str(e)
        if "'abs'" not in se:
            continue
        for pname, dx, dy, extra in sign_profiles:
            for ci, cmp_ in enumerate(('<=', '>=', '=')):
                j += 1
                if level == 0 and j % 2:
                    continue
                doms = {'x': dx, 'y': dy, 'p': D('Boolean'), 'q': D('Boolean')}
                out.append({'fam': 'M1s', 'profile': pname, 'model': mk_model('min' if j % 4 < 2 else 'max', ['+', var('x'), var('y')], [row(e, cmp_, num(ks[(j // 2) % len(ks)]))] + extra, doms)})
    # logic trees as bare assertions and under comparisons with 0/1
    for j, e in enumerate(logs):
        doms = {'x': PROFILES[0][1], 'y': PROFILES[0][2], 'p': D('Boolean'), 'q': D('Boolean')}
        obj = ['+', var('p'), var('q')]
        out.append({'fam': 'M1a', 'profile': 'bool', 'model': mk_model('max' if j % 2 else 'min', obj, [{'assert': e}], doms)})
        cmp_ = ('<=', '>=', '=')[j % 3]
        out.append({'fam': 'M1a', 'profile': 'bool', 'model': mk_model('min', obj, [row(e, cmp_, num((j // 3) % 2))], doms)})
    # objectives
    for j, e in enumerate(nums):
        for d in ('min', 'max'):
            pname, dx, dy, extra = PROFILES[(j + (0 if d == 'min' else 4)) % len(PROFILES)]
            doms = {'x': dx, 'y': dy, 'p': D('Boolean'), 'q': D('Boolean')}
            cons = [row(['+', var('x'), var('y')], '<=', num(3))] + extra
            out.append({'fam': 'M1o', 'profile': pname, 'model': mk_model(d, e, cons, doms)})
    return out


# ------------------------------------------------------------------ seeded random models M(d,k,r)
class RandGen:
    def __init__(self, seed, consts=CONST, muls=MULS, divs=DIVS, illtyped=0.0, text_mode=False):
        self.r = random.Random(seed)
        self.consts, self.muls, self.divs = consts, muls, divs
        self.illtyped = illtyped
        # text_mode: programs meant to go through the parser + type checker: no numeric literal in a
        # logic position, avg blocks allowed
        self.text_mode = text_mode

    def const_term(self, choices, nonzero=False):
        """a constant, sometimes spelled as a compound constant expression ((2 * 3), (1 + 1), (3 / 2), -(2)):
        the compiler substitutes named constants without folding them, so such shapes reach every stage"""
        r = self.r
        if not self.text_mode or r.random() < 0.75:
            return num(r.choice(choices))
        for _ in range(10):
            a, b = r.choice([1, 2, 3, 4, 0.5, -1, -2]), r.choice([1, 2, 3, 4, 0.5, -1, -2])
            op = r.choice(['*', '*', '+', '-', '/'])
            v = {'*': a * b, '+': a + b, '-': a - b, '/': a / b}[op]
            if nonzero and v == 0:
                continue
            return [op, num(a), num(b)] if r.random() < 0.85 else ['neg', [op, num(a), num(b)]]
        return num(r.choice(choices))

    def gen_num(self, d, vars):
        r = self.r
        nv = [v for v, k in vars]
        if d == 0 or r.random() < 0.25:
            return var(r.choice(nv)) if r.random() < 0.7 else num(r.choice(self.consts))
        x = r.random()
        if x < 0.12:
            return ['neg', self.gen_num(d - 1, vars)]
        if x < 0.27:
            c = self.const_term(self.muls)
            return ['*', c, self.gen_num(d - 1, vars)] if r.random() < 0.5 else ['*', self.gen_num(d - 1, vars), c]
        if x < 0.34:
            return ['/', self.gen_num(d - 1, vars), self.const_term(self.divs, nonzero=True)]
        if x < 0.5:
            return [r.choice('+-'), self.gen_num(d - 1, vars), self.gen_num(d - 1, vars)]
        if x < 0.65:
            return ['abs', self.gen_num(d - 1, vars)]
        if x < 0.85:
            ops = ['min', 'max'] + (['avg'] if self.text_mode else [])
            return [r.choice(ops), [self.gen_num(d - 1, vars) for _ in range(r.choice([2, 2, 3]))]]
        if self.text_mode and not [v for v, k in vars if k['k'] == 'Boolean']:
            return var(r.choice(nv))
        return self.gen_log(d - 1, vars)

    def gen_log(self, d, vars):
        r = self.r
        bv = [v for v, k in vars if k['k'] == 'Boolean']
        if self.illtyped and r.random() < self.illtyped:
            return self.gen_num(d, vars)
        if d == 0 or r.random() < 0.3:
            if bv and (self.text_mode or r.random() < 0.85):
                return var(r.choice(bv))
            if self.text_mode:
                return ['not', var(r.choice(bv))] if bv else num(1)
            return num(r.choice([0, 1]))
        x = r.random()
        if x < 0.2:
            return ['not', self.gen_log(d - 1, vars)]
        if x < 0.6:
            return [r.choice(['and', 'or']), [self.gen_log(d - 1, vars) for _ in range(r.choice([2, 2, 3]))]]
        return [r.choice(['xor', 'implies', 'iff']), self.gen_log(d - 1, vars), self.gen_log(d - 1, vars)]

    def gen_dom(self):
        r = self.r
        x = r.random()
        if x < 0.3:
            return D('Boolean')
        if x < 0.5:
            lo = r.choice([-3, -2, -1, 0, 1])
            return D('Int', lo, lo + r.choice([0, 1, 2, 4]))
        if x < 0.8:
            lo = r.choice([-4, -3, -1.5, -1, 0, 0.5, 1, '-inf'])
            hi = r.choice([-1, 0, 0.5, 1, 2, 3, 4, 'inf'])
            if lo != '-inf' and hi != 'inf' and lo > hi:
                lo, hi = hi, lo
            return D('Real', lo, hi)
        return D('NNReal', r.choice([0, 0, 0.5, 1]), r.choice([1, 2, 3, 4, 'inf']))

    def gen_model(self, maxd=3, maxk=3, maxr=3, names=False, dirs=('min', 'max'), bounded=False):
        r = self.r
        k = r.choice(list(range(1, maxk + 1)) + [2])
        vnames = ['x', 'y', 'z'][:k]
        vars = [(n, self.gen_dom()) for n in vnames]
        if bounded:
            vars = [(n, bound_dom(d)) for n, d in vars]
        if self.text_mode and not any(d['k'] == 'Boolean' for _, d in vars) and r.random() < 0.6:
            vars[-1] = (vars[-1][0], D('Boolean'))
        d = r.choice([1, 2, 2, 3][:max(1, maxd + 1)]) if maxd >= 1 else 0
        d = min(d, maxd)
        cons = []
        for i in range(r.choice(list(range(1, maxr + 1)) + [2][:maxr])):
            if r.random() < 0.25 and (not self.text_mode or any(k['k'] == 'Boolean' for _, k in vars)):
                c = {'assert': self.gen_log(d, vars)}
            else:
                c = row(self.gen_num(d, vars), r.choice(['<=', '>=', '=', '<=', '>=']), self.gen_num(r.choice([0, 0, 1]), vars))
            if names and r.random() < 0.5:
                c['name'] = r.choice(['c%d' % i, 'cap', 'cap', 'r_1'])
            cons.append(c)
        obj = {'dir': r.choice(dirs), 'e': self.gen_num(d, vars)}
        m = {'vars': [], 'obj': obj, 'cons': cons}
        used = used_vars(m)
        doms = dict(vars)
        m['vars'] = [[n, doms[n]] for n in sorted(used)]
        if not m['vars']:
            m['vars'] = [[vnames[0], doms[vnames[0]]]]
            m['cons'].append(row(var(vnames[0]), '>=', num(0)) if doms[vnames[0]]['k'] != 'Boolean' else {'assert': ['or', [var(vnames[0]), ['not', var(vnames[0])]]]})
        return m


def bound_dom(d):
    if d['k'] in ('Boolean', 'Int'):
        return d
    lo, hi = float(d['lo']), float(d['hi'])
    if lo == float('-inf'):
        lo = -4.0 if d['k'] == 'Real' else 0.0
    if hi == float('inf'):
        hi = max(lo, 4.0)
    return D(d['k'], lo, hi)


def seeded_models(seed, n, maxd=3, text_mode=False, **kw):
    g = RandGen(seed, text_mode=text_mode)
    return [{'fam': 'M(%d)' % maxd, 'profile': 'seed%d' % seed, 'model': g.gen_model(maxd=maxd, **kw)} for _ in range(n)]


# ------------------------------------------------------------------ L(n,m): linear models given directly
LKINDS_CONT = [D('NNReal', 0, 'inf'), D('Real', '-inf', 'inf'), D('Real', -2, 3), D('Real', '-inf', 3), D('NNReal', 1, 4), D('Real', 1, 'inf'),
               # boundary values of the bound tests in the standardizer: a Real range that starts / ends exactly at 0
               D('Real', 0, 5), D('Real', 0, 'inf'), D('Real', -3, 0), D('NNReal', 0, 4)]
LKINDS_INT = [D('Boolean'), D('Int', -1, 2), D('Int', 0, 3)]


def lm_spec(kinds, rows, obj, dir_, off=0, names=None):
    vs = [['x%d' % i, k] for i, k in enumerate(kinds)]
    rs = []
    for i, (a, c, b) in enumerate(rows):
        r = {'a': [fstr(x) for x in a], 'c': c, 'b': fstr(b)}
        if names and names[i]:
            r['name'] = names[i]
        rs.append(r)
    m = {'vars': vs, 'rows': rs, 'obj': [fstr(x) for x in obj], 'dir': dir_}
    if off:
        m['off'] = fstr(off)
    return m


def l_exhaustive(cont_only=False, level=0):
    """every linear model with n+m <= 3 over a reduced alphabet"""
    kinds = LKINDS_CONT[:4] + LKINDS_CONT[6:7] if cont_only else LKINDS_CONT[:4] + LKINDS_CONT[6:7] + LKINDS_INT[:2]
    if level:
        kinds = LKINDS_CONT if cont_only else LKINDS_CONT + LKINDS_INT
    A = [1, -1, 0, 2] if not level else [1, -1, 0, 2, 0.5]
    B = [0, 1, -1] if not level else [0, 1, -1, 2.5]
    CM = ['<=', '>=', '=']
    OB = [1, -1, 0]
    out = []
    # n=1, m in 0..2
    for k in kinds:
        for o in OB:
            for d in ('min', 'max'):
                out.append(lm_spec([k], [], [o], d))
                for a, c, b in itertools.product(A, CM, B):
                    out.append(lm_spec([k], [([a], c, b)], [o], d))
        rows1 = list(itertools.product(A[:3], CM, B))
        for r1, r2 in itertools.combinations_with_replacement(rows1, 2):
            for o, d in ((1, 'min'), (1, 'max'), (-1, 'min')):
                out.append(lm_spec([k], [([r1[0]], r1[1], r1[2]), ([r2[0]], r2[1], r2[2])], [o], d))
    # n=2, m in 0..1
    for k1, k2 in itertools.product(kinds, repeat=2):
        for (o1, o2), d in itertools.product([(1, 1), (1, -1), (-1, 0), (0, 1)], ('min', 'max')):
            out.append(lm_spec([k1, k2], [], [o1, o2], d))
            for a1, a2, c, b in itertools.product(A, A, CM, B):
                out.append(lm_spec([k1, k2], [([a1, a2], c, b)], [o1, o2], d))
    # n=3, m=0
    for ks in itertools.product(kinds[:3], repeat=3):
        for d in ('min', 'max'):
            out.append(lm_spec(list(ks), [], [1, -1, 0.5], d))
    return out


# values inside and just outside the tolerances the code base compares with (1e-5, 1e-9): a sign or zero test
# written with a tolerant comparison goes wrong exactly here
PROBES = [2.0 ** -20, -2.0 ** -20, 2.0 ** -18, -2.0 ** -18, 2.0 ** -10, -2.0 ** -10, 2.0 ** -34, -2.0 ** -34]


def l_seeded(seed, n, cont_only=False, maxn=3, maxm=3, coefs=None, rhss=None, named=False, tiny=False, offsets=False, satisfy=False, probe=(), strict=False):
    """probe: fields ('coef', 'rhs', 'obj', 'off') that receive a tolerance-probe value with probability 5%"""
    r = random.Random(seed)
    pr = random.Random(seed * 7919 + 1)

    probes = [p for p in PROBES if abs(p) > 1e-9] if 'solver' in probe else PROBES

    def P(field, v):
        return pr.choice(probes) if field in probe and pr.random() < 0.05 else v
    coefs = coefs or [0, 1, -1, 2, -2, 0.5, 3, -0.5, 4, 1.5]
    rhss = rhss or [0, 1, -1, 2, -2, 3, 0.5, 4, -3, 2.5]
    if tiny:
        rhss = rhss + [2.0 ** -20, -2.0 ** -20, 2.0 ** -10, -2.0 ** -10]
    kinds = LKINDS_CONT if cont_only else LKINDS_CONT + LKINDS_INT + [D('Boolean')]
    out = []
    for _ in range(n):
        nv = r.randint(1, maxn)
        nr = r.randint(0 if not named else 1, maxm)
        ks = [r.choice(kinds) for _ in range(nv)]
        rows = []
        for i in range(nr):
            x = r.random()
            if x < 0.06:
                a = [0] * nv          # empty row: 0 cmp b
            elif x < 0.12 and rows:
                a = list(rows[-1][0])  # duplicate / parallel row
            else:
                a = [P('coef', r.choice(coefs)) for _ in range(nv)]
            rows.append((a, r.choice(['<=', '>=', '=', '<=', '>='] + (['<', '>'] if strict else [])), P('rhs', r.choice(rhss))))
        obj = [P('obj', r.choice([0, 1, -1, 2, -2, 0.5, 3])) for _ in range(nv)]
        dirs = ['min', 'max'] + (['solve'] if satisfy else [])
        names = None
        if named:
            names = [('r%d' % i) if r.random() < 0.8 else '' for i in range(nr)]
        off = P('off', r.choice([0, 0, 1.5, -2])) if offsets else 0
        if offsets and 'off' in probe and pr.random() < 0.1:
            off = pr.choice(probes)
        d = r.choice(dirs)
        if d == 'solve':
            obj = [0] * nv   # a satisfy model has no objective function
        spec = lm_spec(ks, rows, obj, d, off, names)
        if nv > 1 and pr.random() < 0.35:
            # domain map ordered differently from the columns (what the linearizer produces for `define y ...; x ...`)
            order = ['x%d' % i for i in range(nv)]
            pr.shuffle(order)
            spec['domain_order'] = order
        out.append(spec)
    return out


def nested_family():
    """piecewise operators directly inside one another, in every value context: as a term of the objective in
    both directions and with both signs (the lower- and the higher-favourable position), and under <=, >=, = with
    constants on both sides of the operand's range. What the outer operator asks of its operand (exact, an upper
    estimate, a lower estimate) is a decision of its own for every (outer, inner, context) triple."""
    x, y = var('x'), var('y')
    inners = [['max', [x, y]], ['min', [x, y]], ['abs', x], ['-', ['abs', x], num(1)], ['neg', ['min', [x, y]]],
              ['-', ['max', [x, num(0.5)]], y], ['abs', ['-', x, y]],
              # an operand the ranges prove dominated (and that the compiler prunes) in front of / between the kept ones
              ['max', [num(-9), x, y]], ['min', [num(9), x, y]], ['max', [x, num(-9), y]], ['min', [x, y, num(9)]],
              # affine inner terms: the wrappers then act on plain linear expressions
              x, ['+', x, y], ['-', ['*', num(2), x], y],
              # blocks with a single operand (a scoped block over a one-element range): the operand is a sum / difference
              ['max', [['-', x, y]]], ['min', [['+', x, y]]], ['min', [['+', x, num(1)]]]]
    outers = [lambda e: e, lambda e: ['-', var('y'), e], lambda e: ['*', num(2), e], lambda e: ['abs', e], lambda e: ['max', [e, num(0.5)]], lambda e: ['min', [e, num(1)]], lambda e: ['neg', ['abs', e]],
              lambda e: ['*', num(-2), ['abs', e]],
              # sign-changing and scaling wrappers directly above a piecewise block: division and multiplication by
              # negative / positive constants on either side, unary minus
              lambda e: ['/', e, num(-2)], lambda e: ['/', e, num(2)], lambda e: ['*', e, num(-0.5)], lambda e: ['neg', e],
              lambda e: ['/', ['abs', e], num(-1)],
              # constants spelled as unfolded constant expressions (a substituted named constant: x / (n - 1))
              lambda e: ['/', e, ['-', num(5), num(1)]], lambda e: ['/', e, ['+', num(2), num(3)]], lambda e: ['*', ['-', num(1), num(3)], e],
              lambda e: ['/', ['*', num(10), e], ['-', num(4), num(2)]]]
    profs = [pr for pr in PROFILES if pr[0] in ('straddle', 'int', 'mixed', 'signed')]
    out = []
    i = 0
    for mk in outers:
        for inner in inners:
            e = mk(inner)
            for pname, dx, dy, extra in profs:
                doms = {'x': dx, 'y': dy, 'p': D('Boolean'), 'q': D('Boolean')}
                cap = [row(['+', x, y], '<=', num(3))] + extra
                for d in ('min', 'max'):
                    out.append({'fam': 'Mn', 'profile': pname, 'model': mk_model(d, ['+', ['+', e, x], y], [dict(c) for c in cap], dict(doms))})
                    out.append({'fam': 'Mn', 'profile': pname, 'model': mk_model(d, ['-', num(3), e], [dict(c) for c in cap], dict(doms))})
                for cmp_ in ('<=', '>=', '='):
                    i += 1
                    k = (1, 0, 2, -1)[i % 4]
                    out.append({'fam': 'Mn', 'profile': pname, 'model': mk_model('min' if i % 2 else 'max', ['+', x, y], [row(e, cmp_, num(k))] + [dict(c) for c in extra], dict(doms))})
    return out


def diverging_family(bounded=False):
    """infeasible (and a few feasible) models on which bound propagation does not converge: each round doubles or
    shifts a bound, until a product or a sum of end points overflows or the step limit is reached. What is published
    then must still be a range (not +inf as a lower bound), render as text the parser reads, and let the solvers say
    'infeasible'."""
    x, y = var('x'), var('y')
    out = []
    shapes = [
        [row(['*', ['abs', x], num(2)], '=', x)],
        [row(x, '>=', ['+', ['abs', x], x])],
        [row(['max', [x, ['+', ['abs', x], x]]], '=', x)],
        [row(x, '>=', ['+', ['*', num(2), x], num(1)])],
        [row(x, '<=', ['-', ['*', num(2), x], num(1)]), row(x, '<=', num(100))],     # feasible: x >= 1
        [row(y, '>=', ['+', x, num(1)]), row(x, '>=', ['+', y, num(1)])],               # +1 per round: step limit
        [row(y, '>=', ['*', num(3), x]), row(x, '>=', ['*', num(3), y])],               # x3 per round
        [row(y, '<=', ['*', num(3), x]), row(x, '<=', ['*', num(3), y]), row(x, '<=', num(-1))],   # towards -inf
        [row(['+', x, y], '>=', ['+', ['*', num(2), x], ['*', num(2), y]]), row(y, '>=', x)],
    ]
    domsets = [
        {'x': D('NNReal', 0.5, 'inf'), 'y': D('NNReal', 1, 'inf')},
        {'x': D('Real', 1, 'inf'), 'y': D('Real', 1, 'inf')},
        {'x': D('Real', '-inf', 'inf'), 'y': D('Real', '-inf', 'inf')},
        {'x': D('Real', '-inf', -1), 'y': D('Real', '-inf', -1)},
    ]
    if bounded:
        # end-to-end checks decide optima over bounded domains only: the same rows, contradiction met inside the box
        domsets = [
            {'x': D('Real', 0.5, 1000), 'y': D('Real', 1, 1000)},
            {'x': D('Real', -1000, -1), 'y': D('Real', -1000, -1)},
            {'x': D('Int', 1, 50), 'y': D('Int', 1, 50)},
            {'x': D('Real', -8, 8), 'y': D('Real', -8, 8)},
        ]
    for cons in shapes:
        for doms in domsets:
            for od, oe in (('min', x), ('max', num(1))):
                out.append({'fam': 'Mdiv', 'profile': 'diverging', 'model': mk_model(od, oe, [dict(c) for c in cons], dict(doms))})
    return out


def rename_vars(m, mapping):
    """the same model with other variable names (compound-looking x_1, leading underscore _t, digits y2)"""
    import copy

    def w(e):
        t = e[0]
        if t == 'var':
            return ['var', mapping.get(e[1], e[1])]
        if t == 'num':
            return e
        if t in ('min', 'max', 'and', 'or', 'avg'):
            return [t, [w(x) for x in e[1]]]
        return [t] + [w(x) for x in e[1:]]
    m2 = {'vars': [[mapping.get(v[0], v[0])] + list(v[1:]) for v in m['vars']], 'obj': {'dir': m['obj']['dir'], 'e': w(m['obj']['e'])}, 'cons': []}
    for c in m['cons']:
        c2 = {'assert': w(c['assert'])} if 'assert' in c else {'l': w(c['l']), 'c': c['c'], 'r': w(c['r'])}
        if c.get('name'):
            c2['name'] = c['name']
        m2['cons'].append(c2)
    return m2


NAME_STYLES = [{}, {'x': 'x_1', 'y': 'y2', 'z': '_t', 'p': 'p_0', 'q': 'flag'}, {'x': 'cost', 'y': 'x_2', 'z': 'z_a', 'p': '__b', 'q': 'q1'}]
