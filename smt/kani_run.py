"""Engine K: runs Kani proof harnesses compiled INSIDE the crate (cfg(kani) include points of the
verif-hooks commit) on a scratch copy of /repo's working tree.  A harness passes only if CBMC
reports VERIFICATION:- SUCCESSFUL with unwinding assertions on; a time-out, an out-of-memory
`Status: ERROR` or a missing verdict is INCONCLUSIVE, never success.  Harnesses whose name ends
in `_witness` are vacuity witnesses and must be reported FAILED."""
import json, os, re, shutil, subprocess, sys, tempfile, time
import common

KANI_DIR = os.path.join(common.VERIF, 'kani')

GROUPS = {
    'req': ['req_reversed_involution', 'req_through_scale_all_doubles', 'req_monotonicity_lemma', 'cmp_reversal_consistent', 'cmp_holds_matches_order', 'req_reach_witness'],
    'ival': ['ival_add', 'ival_sub', 'ival_neg_abs', 'ival_scale', 'ival_div_by', 'ival_sums_never_nan', 'ival_intersection', 'ival_from_variable_type', 'ival_required_bounds', 'ival_reach_witness'],
    'stdk': ['fpred_consistent_order', 'stdk_equality_constraint_normalised', 'stdk_reach_witness'],
    'tab': ['tab_step_2x3'],
    'span': ['span_text_total', 'span_reach_witness'],
    'idx': ['idx_read_empty_outer', 'idx_read_flat', 'idx_reach_witness'],
    'util': ['util_remove_many_f64', 'util_reach_witness'],
}
STUBBING = {'span', 'idx'}   # groups whose harnesses use #[kani::stub] (listed in the evidence as stubs)


def arith_harnesses():
    names = re.findall(r'^\s*(?:int_harness|mul_harness|div_harness|float_operand_harness|float_recv_harness)!\((\w+),', open(os.path.join(KANI_DIR, 'arith.rs')).read(), re.M)
    names += re.findall(r'^fn (arith_\w+)\(', open(os.path.join(KANI_DIR, 'arith.rs')).read(), re.M)
    return names


def harnesses(group):
    if group == 'arith':
        return arith_harnesses()
    return GROUPS[group]


def functions_encoded(group):
    return {
        'req': ['ValueRequirement::reversed', 'ValueRequirement::through_scale', 'comparison_holds', 'reversed_comparison'],
        'ival': ['Bounds::{add,sub,neg,scale,div_by,abs,intersection,from_variable_type}', 'lower_sum', 'upper_sum', 'required_bounds'],
        'stdk': ['float_{eq,ne,lt,gt,le,ge}', 'EqualityConstraint::new'],
        'tab': ['Tableau::step (find_h, find_t, pivot) from a symbolic canonical 2x3 tableau'],
        'span': ['InputSpan::span_text (alloc::fmt::format stubbed)'],
        'util': ['utils::remove_many::<f64> (5 elements, two arbitrary indexes)'],
        'idx': ['IterableKind::read on an empty nested array (path of two indexes) and on a flat array (one index); Display of the array and alloc::fmt::format stubbed'],
        'arith': ['<i64/u64/f64/bool as ApplyOp>::{apply_binary_op, apply_unary_op}', 'checked_i64', 'checked_u64', 'checked_div', 'Primitive::{as_integer_cast, as_usize_cast}'],
    }[group]


def run_group(group, timeout_s=900, mem_gb=24, jobs=16, playback=True):
    """returns dict: {'status': 'ok'|'violation'|'inconclusive', 'harnesses': {name: verdict}, 'wall_s', 'log', ...}"""
    names = harnesses(group)
    t0 = time.time()
    scratch = tempfile.mkdtemp(prefix='rooc-kani-', dir='/tmp')
    try:
        crate = os.path.join(scratch, 'rooc')
        subprocess.run(['rsync', '-a', '--exclude', 'target', '--exclude', '.git', common.CRATE + '/', crate + '/'], check=True)
        target = os.path.join(common.WORK, 'kani', group)
        os.makedirs(target, exist_ok=True)
        env = dict(os.environ, ROOC_VERIF_KANI_DIR=KANI_DIR, CARGO_NET_OFFLINE='true')
        cmd = ['cargo', 'kani', '--features', 'verif-hooks', '--target-dir', target, '--no-overflow-checks']
        if group in STUBBING:
            cmd += ['-Z', 'stubbing']
        if len(names) > 2:
            cmd += ['-j', str(min(jobs, len(names))), '--output-format', 'terse']
        for n in names:
            cmd += ['--harness', n]
        log = os.path.join(common.WORK, 'kani', group + '.log')
        shell = 'ulimit -v %d; exec timeout %d %s' % (mem_gb * 1024 * 1024, timeout_s, ' '.join(cmd))
        with open(log, 'w') as fh:
            p = subprocess.run(['bash', '-c', shell], cwd=crate, env=env, stdout=fh, stderr=subprocess.STDOUT)
        verdicts, failed_checks = parse_log(log, names)
        res = {'group': group, 'harnesses': verdicts, 'wall_s': round(time.time() - t0, 1), 'log': log, 'returncode': p.returncode, 'failed_checks': failed_checks}
        real_failed = [n for n, v in verdicts.items() if v == 'FAILED' and not n.endswith('_witness')]
        witness_bad = [n for n, v in verdicts.items() if n.endswith('_witness') and v != 'FAILED']
        missing = [n for n, v in verdicts.items() if v not in ('SUCCESSFUL', 'FAILED')]
        if real_failed:
            res['status'] = 'violation'
            res['failed'] = real_failed
            if playback:
                res['playback'] = {n: concrete_playback(crate, env, target, n, group in STUBBING) for n in real_failed[:4]}
        elif missing or witness_bad:
            res['status'] = 'inconclusive'
            res['why'] = {'no_verdict': missing, 'vacuity_witness_not_failed': witness_bad}
        else:
            res['status'] = 'ok'
        return res
    finally:
        shutil.rmtree(scratch, ignore_errors=True)


def parse_log(log, names):
    """sequential format: 'Checking harness X...' ... 'VERIFICATION:- ...';
    parallel (-j, terse): 'Thread N: Checking harness X...' and later a block introduced by 'Thread N: '"""
    verdicts = {n: 'NONE' for n in names}
    failed_checks = {}
    cur = None
    thread_cur = {}
    for line in open(log, errors='replace'):
        line = line[:400]
        m = re.match(r'^Thread (\d+): Checking harness (\S+?)\.\.\.', line)
        if m:
            thread_cur[m.group(1)] = m.group(2).split('::')[-1]
            continue
        m = re.match(r'^Thread (\d+):\s*$', line)
        if m:
            cur = thread_cur.get(m.group(1))
            continue
        m = re.match(r'^Checking harness (\S+?)\.\.\.', line)
        if m:
            cur = m.group(1).split('::')[-1]
            continue
        m = re.match(r'^VERIFICATION:- (SUCCESSFUL|FAILED)', line)
        if m and cur:
            if cur in verdicts:
                verdicts[cur] = m.group(1)
            continue
        if line.startswith('Failed Checks:') and cur:
            failed_checks.setdefault(cur, []).append(line.strip()[:200])
        if 'Status: ERROR' in line and cur and cur in verdicts:
            verdicts[cur] = 'ERROR'
    # CBMC's C library model of fma() raises IEEE exception flags through feraiseexcept(), whose model asserts
    # "floating-point exception" (inf * k - inf inside f64::mul_add). Rust cannot observe or trap those flags, the
    # assertion is not an assert-and-assume, and every other check of the harness is still decided: a harness whose
    # ONLY failed check is that one is a pass. Listed as a stub in the evidence.
    for n, fc in failed_checks.items():
        if verdicts.get(n) == 'FAILED' and fc and all(c == 'Failed Checks: floating-point exception' for c in fc):
            verdicts[n] = 'SUCCESSFUL'
            IGNORED_FP_FLAG.add(n)
    return verdicts, failed_checks


IGNORED_FP_FLAG = set()


def concrete_playback(crate, env, target, harness, stubbing=False):
    """ask Kani for the concrete counterexample of one failing harness and replay it natively (dev profile)"""
    try:
        cmd = ['cargo', 'kani', '--features', 'verif-hooks', '--target-dir', target, '--no-overflow-checks', '-Z', 'concrete-playback', '--concrete-playback=print', '--harness', harness]
        if stubbing:
            cmd += ['-Z', 'stubbing']
        p = subprocess.run(['bash', '-c', 'exec timeout 600 ' + ' '.join(cmd)], cwd=crate, env=env, capture_output=True, text=True)
        out = p.stdout
        m = re.search(r'(#\[test\]\s*fn (kani_concrete_playback_\w+)\(\)[\s\S]*?\n\}\n)', out)
        if not m:
            return {'reproduced': None, 'why': 'no playback test printed'}
        test_src, test_name = m.group(1), m.group(2)
        vals = re.findall(r'vec!\[([0-9, ]*)\]', test_src)
        # put the test next to its harness in a scratch copy of the harness directory and run it natively
        kd = os.path.join(os.path.dirname(crate), 'kani-' + harness)
        shutil.copytree(KANI_DIR, kd, dirs_exist_ok=True)
        for f in os.listdir(kd):
            src = open(os.path.join(kd, f)).read()
            if re.search(r'\bfn %s\b' % harness, src) or ('%s,' % harness) in src:
                open(os.path.join(kd, f), 'a').write('\n' + test_src)
        env2 = dict(env, ROOC_VERIF_KANI_DIR=kd)
        p2 = subprocess.run(['bash', '-c', 'exec timeout 900 cargo kani playback -Z concrete-playback %s--features verif-hooks -- %s' % ('-Z stubbing ' if stubbing else '', test_name)], cwd=crate, env=env2, capture_output=True, text=True)
        txt = p2.stdout + p2.stderr
        failed = bool(re.search(r'test result: FAILED|panicked at', txt))
        msg = re.findall(r'panicked at[^\n]*\n[^\n]*', txt)[:1]
        return {'reproduced': failed, 'concrete_bytes': vals[:8], 'panic': msg, 'test': test_name}
    except Exception as e:
        return {'reproduced': None, 'why': repr(e)[:200]}


def start(groups, **kw):
    """run Kani groups on a background thread while the SMT engine works"""
    import threading
    box = {'results': []}

    def body():
        for g in groups:
            try:
                box['results'].append(run_group(g, **kw))
            except Exception as e:
                box['results'].append({'group': g, 'status': 'inconclusive', 'why': repr(e)[:300], 'harnesses': {}, 'wall_s': 0, 'log': ''})
    th = threading.Thread(target=body, daemon=True)
    th.start()
    box['thread'] = th
    return box


def join(box, rep, prop):
    """wait, then feed the verdicts into the report; returns the evidence summary"""
    box['thread'].join()
    for r in box['results']:
        for n in r.get('failed', []):
            pb = (r.get('playback') or {}).get(n, {})
            if pb and pb.get('reproduced') is False:
                rep.broken.append({'why': 'Kani counterexample did not reproduce natively', 'harness': n, 'playback': pb})
                continue
            rep.violation({'stage': 'kani', 'harness': n}, {'property': prop, 'kind': 'kani', 'group': r['group'], 'harness': n,
                                                              'failed_checks': r.get('failed_checks', {}).get(n), 'playback': pb,
                                                              'how_to_replay': 'python3-vt smt/kani_run.py %s' % r['group']})
        if r['status'] == 'inconclusive':
            rep.broken.append({'why': 'Kani group %s inconclusive' % r['group'], 'detail': r.get('why'), 'log': r.get('log')})
    return summary_for_evidence(box['results'])


def summary_for_evidence(results):
    out = []
    for r in results:
        out.append({'group': r['group'], 'status': r['status'], 'wall_s': r['wall_s'], 'harnesses': r['harnesses'],
                    'functions': functions_encoded(r['group']),
                    'ignored_model_checks': {n: 'CBMC feraiseexcept() model assertion inside fma (IEEE flags are not observable in Rust)'
                                             for n in r['harnesses'] if n in IGNORED_FP_FLAG}})
    return out


if __name__ == '__main__':
    r = run_group(sys.argv[1], timeout_s=int(sys.argv[2]) if len(sys.argv) > 2 else 900)
    print(json.dumps(r, indent=1))
