"""Encoder of the driver's dumps of real outputs (LinearModel, StandardLinearModel, tableau)
into z3 constraints with exact rational coefficients."""
from fractions import Fraction
import z3
from sem import Q, dom_c, cmp_c, py_dom, INF


def finite(x):
    return x == x and x not in (INF, -INF)


def row_parts(r):
    return [float(x) for x in r['a']], r['c'], float(r['b'])


def nonfinite_entries(L):
    bad = []
    for i, r in enumerate(L['rows']):
        a, _, b = row_parts(r)
        if not all(finite(x) for x in a) or not finite(b):
            bad.append(('row', i))
    if not all(finite(float(x)) for x in L['obj']):
        bad.append(('obj', -1))
    if not finite(float(L['off'])):
        bad.append(('off', -1))
    return bad


def names(L):
    return [n for n, _ in L['vars']]


def row_margin(a, b, eps):
    return eps * (1 + abs(Fraction(b)) + sum(abs(Fraction(x)) for x in a)) if eps else None


def lin_rows_c(L, env, eps=None, skip=None):
    ns = names(L)
    cs = []
    for i, r in enumerate(L['rows']):
        if skip is not None and i in skip:
            continue
        a, c, b = row_parts(r)
        if not all(finite(x) for x in a) or not finite(b):
            cs.append(z3.BoolVal(False))  # a NaN / infinite row can never be satisfied by a solver
            continue
        terms = [Q(x) * env[n] for x, n in zip(a, ns) if x != 0]
        lhs = z3.Sum(terms) if terms else z3.RealVal(0)
        cs.append(cmp_c(lhs, c, Q(b), row_margin([x for x in a if x != 0], b, eps)))
    return cs


def lin_doms_c(L, env, eps=None):
    cs = []
    for n, d in L['vars']:
        if d is None:
            cs.append(z3.BoolVal(False))
        else:
            cs.append(dom_c(env[n], d, eps))
    return cs


def lin_c(L, env, eps=None, skip=None):
    cs = lin_rows_c(L, env, eps, skip) + lin_doms_c(L, env, eps)
    return z3.And(cs) if cs else z3.BoolVal(True)


def lin_obj(L, env):
    ns = names(L)
    cf = [float(x) for x in L['obj']]
    off = float(L['off'])
    if not all(finite(x) for x in cf) or not finite(off):
        return None
    terms = [Q(c) * env[n] for c, n in zip(cf, ns) if c != 0]
    return z3.Sum(terms + [Q(off)]) if terms else Q(off)


# ---------------------------------------------------------------- exact python evaluation
def py_rows(L, point):
    """list of (lhs Fraction, cmp, rhs Fraction) at point (dict name->Fraction)"""
    ns = names(L)
    out = []
    for r in L['rows']:
        a, c, b = row_parts(r)
        if not all(finite(x) for x in a) or not finite(b):
            out.append((None, c, None))
            continue
        out.append((sum(Fraction(x) * Fraction(point[n]) for x, n in zip(a, ns)), c, Fraction(b)))
    return out


def py_lin_ok(L, point, tol=Fraction(0), row_tol=None):
    if row_tol is None:
        row_tol = tol
    for n, d in L['vars']:
        if d is None or not py_dom(Fraction(point[n]), d, tol):
            return False
    for lhs, c, rhs in py_rows(L, point):
        if lhs is None:
            return False
        if c == '<=' and not lhs <= rhs + row_tol:
            return False
        if c == '>=' and not lhs >= rhs - row_tol:
            return False
        if c == '=' and not abs(lhs - rhs) <= row_tol:
            return False
        if c == '<' and not lhs < rhs:
            return False
        if c == '>' and not lhs > rhs:
            return False
    return True


def py_obj(L, point):
    return sum(Fraction(float(c)) * Fraction(point[n]) for c, n in zip(L['obj'], names(L))) + Fraction(float(L['off']))


def lm_is_continuous(L):
    return all(d is not None and d['k'] in ('Real', 'NNReal') for _, d in L['vars'])
