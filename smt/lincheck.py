"""C01 / C02 / C07: translation validation of the real Linearizer (+ BoundsAnalyzer).

For every member of the program family the REAL `Linearizer::linearize` is run by the driver;
its output rows/domains/objective are encoded exactly (lin.py); the input's meaning comes
from the independent semantics (sem.py); z3 decides the for-all-values obligations.
"""
import copy, json, os, sys, time
from fractions import Fraction
import z3
import common, sem, lin, gen, zq
from common import run_driver, parallel, Report, tier, seed, fs, canon

EPS = Fraction(1, 10 ** 7)
# optimum of the eps-relaxed linear model vs optimum of the source: the relaxation moves an optimum by eps times the
# conditioning of the rows (big-M constants), so this sanity comparison is looser than the pointwise obligations
OPT_TOL = Fraction(1, 10 ** 4)
PROP = None       # set by main before forking
QT = 10000


def compile_jobs(items, extra=None):
    jobs = []
    for it in items:
        j = {'cmd': 'compile', 'model': it['model'], 'want': []}
        if PROP == 'C07':
            j['bound_steps'] = [None, 0, 1, 2, 3]
            subs = all_subexps(it['model'])
            j['sub_exps'] = subs
        elif PROP == 'C01':
            j['bound_steps'] = [None]
        if extra:
            j.update(extra)
        jobs.append(j)
    return jobs


def all_subexps(m):
    acc = []
    sem.subexps(m['obj']['e'], acc)
    for c in m['cons']:
        if 'assert' in c:
            sem.subexps(c['assert'], acc)
        else:
            sem.subexps(c['l'], acc)
            sem.subexps(c['r'], acc)
    seen, out = set(), []
    for e in acc:
        k = str(e)
        if k not in seen:
            seen.add(k)
            out.append(e)
    return out


def envs(model, L):
    srcn = [v[0] for v in model['vars']]
    env = sem.mk_env(srcn)
    aux = [n for n in lin.names(L) if n not in env]
    for n in aux:
        env[n] = z3.Real(n)
    return srcn, aux, env


def obj_margin(model, L):
    ks = sem.constants(model['obj']['e'])
    s = 1 + sum(abs(Fraction(k)) for k in ks if lin.finite(k))
    s += sum(abs(Fraction(float(c))) for c in L['obj'] if lin.finite(float(c)))
    return EPS * s


# ------------------------------------------------------------------ per-model judgement
def judge(item, out):
    model = item['model']
    res = {'idx': item['idx'], 'fails': [], 'q': 0, 'unknown': [], 'status': 'ok'}
    l = out.get('lin', {})
    if out.get('crash') or l.get('panic'):
        res['status'] = 'panic'
        return res
    if 'err' in l:
        res['status'] = 'rejected:' + l.get('kind', '?')
        if PROP != 'C07':
            return res
        L = None
    else:
        L = l['ok']
    if PROP == 'C01':
        judge_c01(model, L, out, res)
    elif PROP == 'C02':
        judge_c02(model, L, out, res)
    elif PROP == 'C07':
        judge_c07(model, L, out, res)
    return res


def ask(res, name, formulas, want, **kw):
    v, pt, _ = zq.query(formulas, timeout_ms=QT, want_vars=want, **kw)
    res['q'] += 1
    if v == 'unknown':
        res['unknown'].append(name)
    return v, pt


def judge_c01(model, L, out, res):
    srcn, aux, env = envs(model, L)
    missing = [n for n in srcn if n not in lin.names(L)]
    if missing:
        res['fails'].append({'ob': 'sound', 'cause': 'declared-variable-missing-from-linear-model', 'missing': missing, 'point': None})
        return
    xs = {n: env[n] for n in srcn}
    allv = {n: env[n] for n in srcn + aux}
    auxv = [env[n] for n in aux]
    S_eps = sem.src_c(model, env, EPS)
    S = sem.src_c(model, env)
    Ln = lin.lin_c(L, env)
    Ln_eps = lin.lin_c(L, env, EPS)
    # soundness: nothing infeasible is let in
    v, pt = ask(res, 'sound', [Ln, z3.Not(S_eps)], allv)
    if v == 'sat':
        cause = 'other'
        # attribution to the Boolean-derived-range cause (DESIGN §5 F7): does the query become unsat
        # once the ranges the compiler derived for the Boolean variables are added to Lin?
        b = (out.get('bounds') or {}).get('null')
        if isinstance(b, list):
            extra = []
            for n, lo, hi in b:
                d = dict((x[0], x[1]) for x in model['vars']).get(n)
                if d and d['k'] == 'Boolean' and n in env:
                    extra += [env[n] >= sem.Q(lo), env[n] <= sem.Q(hi)]
            if extra:
                v2, _ = ask(res, 'sound-f7', [Ln, z3.Not(S_eps)] + extra, None)
                if v2 == 'unsat':
                    cause = 'boolean-derived-range-not-enforced'
        res['fails'].append({'ob': 'sound', 'cause': cause, 'point': zq.point_json(pt)})
    # completeness: nothing feasible is cut off
    body = z3.Not(Ln_eps)
    v, pt = ask(res, 'complete', [S, z3.ForAll(auxv, body) if auxv else body], xs)
    if v == 'sat':
        bad = lin.nonfinite_entries(L)
        res['fails'].append({'ob': 'complete', 'cause': 'non-finite-constant' if bad else 'other', 'point': zq.point_json(pt)})


def judge_c02(model, L, out, res):
    d = model['obj']['dir']
    if d not in ('min', 'max'):
        res['status'] = 'skip-satisfy'
        return
    srcn, aux, env = envs(model, L)
    if any(n not in lin.names(L) for n in srcn):
        res['status'] = 'skip-missing-var'
        return
    xs = {n: env[n] for n in srcn}
    allv = {n: env[n] for n in srcn + aux}
    auxv = [env[n] for n in aux]
    S = sem.src_c(model, env)
    Ln = lin.lin_c(L, env)
    Ln_eps = lin.lin_c(L, env, EPS)
    f = sem.val(model['obj']['e'], env)
    g = lin.lin_obj(L, env)
    if g is None:
        res['fails'].append({'ob': 'objective-finite', 'cause': 'non-finite-objective', 'point': None})
        return
    if L['dir'] != d:
        res['fails'].append({'ob': 'direction', 'cause': 'direction-changed', 'point': None})
        return
    # float-noise margin: a constant part plus a part proportional to the size of each objective term (a coefficient
    # such as 1/3 is off by one ulp, which on an unbounded variable is an unbounded absolute error)
    def _abs(t):
        return z3.If(t >= 0, t, -t)
    scaled = [sem.Q(EPS * abs(Fraction(float(c)))) * _abs(env[n]) for n, c in zip(lin.names(L), L['obj']) if lin.finite(float(c)) and float(c) != 0]
    m = sem.Q(obj_margin(model, L)) + (z3.Sum(scaled) if scaled else z3.RealVal(0))
    better = (g < f - m) if d == 'min' else (g > f + m)
    v, pt = ask(res, 'nobetter', [S, Ln, better], allv)
    if v == 'sat':
        res['fails'].append({'ob': 'nobetter', 'cause': 'other', 'point': zq.point_json(pt)})
    near = z3.And(g <= f + m, g >= f - m)
    if auxv:
        # a fresh copy of the auxiliaries witnesses "some extension exists" (otherwise it is C01's business)
        sub = [(env[n], z3.Real(n + '!w')) for n in aux]
        exists = z3.substitute(Ln_eps, *sub)
        fs_ = [S, exists, z3.ForAll(auxv, z3.Implies(Ln_eps, z3.Not(near)))]
    else:
        fs_ = [S, Ln_eps, z3.Not(near)]
    v, pt = ask(res, 'attain', fs_, xs)
    if v == 'sat':
        res['fails'].append({'ob': 'attain', 'cause': 'other', 'point': zq.point_json(pt)})
    # the "consequently" clause, asked directly on a sample: same status and same optimal value (z3 Optimize, exact)
    # (not on models with strict rows: their optimum can be an unattained infimum, and the float-noise relaxation of
    # Lin moves discretely across a strict boundary - the pointwise obligations above are the claim there)
    strict = any(c.get('c') in ('<', '>') for c in model['cons'])
    if res.get('idx', 0) % 7 == 0 and not res['fails'] and not strict:
        so, vo = optimize(S, f, d)
        sl, vl = optimize(Ln_eps, g, d)   # relaxed by the float-noise margin, like every obligation about Lin
        res['q'] += 2
        if 'unknown' not in (so, sl):
            if so != sl:
                res['fails'].append({'ob': 'optimum-status-differs', 'cause': 'other', 'source': so, 'linear': sl, 'point': None})
            elif so == 'ok' and abs(vo - vl) > OPT_TOL * (1 + abs(vo)):
                res['fails'].append({'ob': 'optimal-value-differs', 'cause': 'other', 'source': str(vo), 'linear': str(vl), 'point': None})


def optimize(constraint, objective, direction):
    o = z3.Optimize()
    o.set('timeout', QT)
    o.add(constraint)
    h = o.minimize(objective) if direction == 'min' else o.maximize(objective)
    r = o.check()
    if r == z3.unsat:
        return 'infeasible', None
    if r != z3.sat:
        return 'unknown', None
    v = o.lower(h) if direction == 'min' else o.upper(h)
    if z3.is_rational_value(v) or z3.is_int_value(v):
        return 'ok', zq.to_frac(v)
    if 'oo' in str(v):
        return 'unbounded', None
    return 'unknown', None   # e.g. an infimum that is not attained (epsilon terms)


def judge_c07(model, L, out, res):
    srcn = [v[0] for v in model['vars']]
    env = sem.mk_env(srcn)
    doms = dict((v[0], v[1]) for v in model['vars'])
    xs = {n: env[n] for n in srcn}
    S = sem.src_c(model, env)
    if L is not None:
        # published ranges of the declared variables
        outside = []
        for n, d in L['vars']:
            if n in env and d is not None:
                outside.append(z3.Not(sem.dom_c(env[n], d, EPS)))
        if outside:
            v, pt = ask(res, 'published', [S, z3.Or(outside)], xs)
            if v == 'sat':
                res['fails'].append({'ob': 'published-range', 'cause': 'other', 'point': zq.point_json(pt)})
    # ranges derived by the analyzer, also when it stops at a step limit
    for steps, b in sorted((out.get('bounds') or {}).items()):
        if not isinstance(b, list):
            res['fails'].append({'ob': 'derived-range', 'cause': 'analyzer-panic', 'steps': steps, 'point': None})
            continue
        outside = []
        for n, lo, hi in b:
            lo, hi = float(lo), float(hi)
            if lo != lo or hi != hi:
                res['fails'].append({'ob': 'derived-range', 'cause': 'nan-bound', 'steps': steps, 'point': None})
                continue
            outside.append(z3.Not(box_c(env[n], lo, hi)))
        if outside:
            v, pt = ask(res, 'derived:' + steps, [S, z3.Or(outside)], xs)
            if v == 'sat':
                res['fails'].append({'ob': 'derived-range', 'cause': 'other', 'steps': steps, 'point': zq.point_json(pt)})
    # ranges of sub-expressions over the whole box of derived variable ranges
    sb = out.get('sub_bounds')
    b = (out.get('bounds') or {}).get('null')
    if isinstance(sb, list) and isinstance(b, list):
        box = [box_c(env[n], float(lo), float(hi), exact=True) for n, lo, hi in b if n in env]
        subs = all_subexps(model)
        outside = []
        for e, (lo, hi) in zip(subs, sb):
            lo, hi = float(lo), float(hi)
            if lo != lo or hi != hi:
                res['fails'].append({'ob': 'subexp-range', 'cause': 'nan-bound', 'exp': e, 'point': None})
                continue
            if sem.has_var_division(e):
                continue
            outside.append(z3.And(sem.defined(e, env), z3.Not(box_c(sem.val(e, env), lo, hi))))
        if outside:
            v, pt = ask(res, 'subexp', box + [z3.Or(outside)], xs)
            if v == 'sat':
                # find which sub-expression
                which = None
                for e, (lo, hi) in zip(subs, sb):
                    try:
                        val = sem.pyval(e, pt)
                    except ZeroDivisionError:
                        continue
                    lo, hi = float(lo), float(hi)
                    if (lo != -sem.INF and val < Fraction(lo) - margin_of(lo)) or (hi != sem.INF and val > Fraction(hi) + margin_of(hi)):
                        which = {'exp': e, 'lo': fs(lo), 'hi': fs(hi), 'value': str(val)}
                        break
                res['fails'].append({'ob': 'subexp-range', 'cause': 'other', 'which': which, 'point': zq.point_json(pt)})
    judge_c07_lowering(model, out, res)


def judge_c07_lowering(model, out, res):
    """the ranges the LOWERING consults (a real Linearizer context: analysis, publication of the ranges into the domain,
    reconciliation of the analyzer with what that domain can enforce) must hold on the whole box of PUBLISHED variable
    ranges - including the integrality / 0-1 typing the published domain states - because the published domain is all
    the emitted model enforces about the variables"""
    low = out.get('lowering')
    if not isinstance(low, dict) or 'ranges' not in low:
        if isinstance(low, dict) and low.get('panic'):
            res['fails'].append({'ob': 'lowering-range', 'cause': 'panic', 'point': None})
        return
    srcn = [v[0] for v in model['vars']]
    env = sem.mk_env(srcn)
    xs = {n: env[n] for n in srcn}
    pub = dict((n, d) for n, d in low['published'])
    box = [sem.dom_c(env[n], pub[n]) for n in srcn if n in pub]
    subs = all_subexps(model)
    outside, kept = [], []
    for e, (lo, hi) in zip(subs, low['ranges']):
        lo, hi = float(lo), float(hi)
        if lo != lo or hi != hi:
            res['fails'].append({'ob': 'lowering-range', 'cause': 'nan-bound', 'exp': e, 'point': None})
            continue
        if sem.has_var_division(e):
            continue
        kept.append((e, lo, hi))
        outside.append(z3.And(sem.defined(e, env), z3.Not(box_c(sem.val(e, env), lo, hi))))
    if not outside:
        return
    v, pt = ask(res, 'lowering', box + [z3.Or(outside)], xs)
    if v == 'sat':
        which = None
        for e, lo, hi in kept:
            try:
                val = sem.pyval(e, pt)
            except ZeroDivisionError:
                continue
            if (lo != -sem.INF and val < Fraction(lo) - margin_of(lo)) or (hi != sem.INF and val > Fraction(hi) + margin_of(hi)):
                which = {'exp': e, 'lo': fs(lo), 'hi': fs(hi), 'value': str(val)}
                break
        res['fails'].append({'ob': 'lowering-range', 'cause': 'other', 'which': which, 'published': low['published'], 'point': zq.point_json(pt)})


def margin_of(b):
    return EPS * (1 + abs(Fraction(b))) if lin.finite(b) else 0


def box_c(v, lo, hi, exact=False):
    cs = []
    if lo == sem.INF or hi == -sem.INF:
        return z3.BoolVal(False)
    if lo != -sem.INF:
        cs.append(v >= sem.Q(Fraction(lo) - (0 if exact else margin_of(lo))))
    if hi != sem.INF:
        cs.append(v <= sem.Q(Fraction(hi) + (0 if exact else margin_of(hi))))
    return z3.And(cs) if cs else z3.BoolVal(True)


# ------------------------------------------------------------------ vacuity twins (must-fail mutants of the real output)
def twin_mutants(L):
    """mutations of the dumped linear model that change its meaning in general"""
    out = []
    for i, r in enumerate(L['rows']):
        m = copy.deepcopy(L)
        del m['rows'][i]
        out.append(('drop-row-%d' % i, m))
        m = copy.deepcopy(L)
        b = float(r['b'])
        m['rows'][i]['b'] = fs(b + 1 if r['c'] != '>=' else b - 1)
        out.append(('shift-rhs-%d' % i, m))
        for j, a in enumerate(r['a']):
            a = float(a)
            if abs(a) > 2.5:  # looks like a big-M: halve it
                m = copy.deepcopy(L)
                m['rows'][i]['a'][j] = fs(a / 2)
                out.append(('halve-%d-%d' % (i, j), m))
                break
        if any(float(a) != 0 for a in r['a']):
            m = copy.deepcopy(L)
            m['rows'][i]['c'] = {'<=': '>=', '>=': '<=', '=': '<='}[r['c']]
            out.append(('flip-%d' % i, m))
    return out


def twins(item, out):
    """how many mutants of this model's real output the obligations detect"""
    model = item['model']
    l = out.get('lin', {})
    if 'ok' not in l:
        return (0, 0)
    L = l['ok']
    tried = det = 0
    for name, M in twin_mutants(L)[:6]:
        res = {'idx': -1, 'fails': [], 'q': 0, 'unknown': [], 'status': 'ok'}
        o2 = dict(out)
        o2['lin'] = {'ok': M}
        if PROP == 'C01':
            judge_c01(model, M, {}, res)
        elif PROP == 'C02':
            if model['obj']['dir'] not in ('min', 'max'):
                continue
            M2 = copy.deepcopy(L)
            # objective mutants: offset shifted, one coefficient changed
            M2['off'] = fs(float(L['off']) + 1)
            judge_c02(model, M2, {}, res)
        tried += 1
        if res['fails']:
            det += 1
    return (tried, det)


# ------------------------------------------------------------------ encoder validation
def encoder_validation(items, outs, rnd):
    """real calc_constraints / calc_objective vs. the python encoding at random dyadic points"""
    jobs, meta = [], []
    for it, out in zip(items, outs):
        l = out.get('lin', {})
        if 'ok' not in l:
            continue
        L = l['ok']
        if lin.nonfinite_entries(L):
            continue
        pts = [{n: rnd.randrange(-32, 33) / 8 for n in lin.names(L)} for _ in range(4)]
        jobs.append({'cmd': 'lm', 'lm': {'vars': [[n, d] for n, d in L['vars']], 'rows': L['rows'], 'obj': L['obj'], 'off': L['off'], 'dir': L['dir']},
                     'ops': [], 'replay': {'points': [{n: fs(v) for n, v in p.items()} for p in pts]}})
        meta.append((L, pts))
    res = run_driver(jobs)
    bad, n = [], 0
    for (L, pts), r in zip(meta, res):
        if 'points' not in r:
            bad.append({'why': 'driver could not rebuild the dumped model', 'lm': L})
            continue
        for p, ev in zip(pts, r['points']):
            n += 1
            mine = lin.py_rows(L, {k: Fraction(v) for k, v in p.items()})
            for (lhs, _, _), real in zip(mine, ev['rows']):
                if abs(float(lhs) - float(real)) > 1e-9 * (1 + abs(float(real))):
                    bad.append({'why': 'row value differs', 'lm': L, 'point': p})
            if abs(float(lin.py_obj(L, {k: Fraction(v) for k, v in p.items()})) - float(ev['obj'])) > 1e-9 * (1 + abs(float(ev['obj']))):
                bad.append({'why': 'objective differs', 'lm': L, 'point': p})
    return n, bad


# ------------------------------------------------------------------ worker
def work(chunk):
    import random
    zq.reset_stats()
    outs = run_driver(compile_jobs(chunk))
    results = []
    for it, out in zip(chunk, outs):
        try:
            results.append(judge(it, out))
        except Exception as e:  # machinery fault, never a verdict
            import traceback
            results.append({'idx': it['idx'], 'fails': [], 'q': 0, 'unknown': [], 'status': 'fault', 'fault': traceback.format_exc()[-800:]})
    tw = [0, 0]
    ev = (0, [])
    if PROP in ('C01', 'C02'):
        for it, out in zip(chunk, outs):
            if it['idx'] % 40 == 0:
                try:
                    a, b = twins(it, out)
                except Exception:
                    a, b = 0, 0
                tw[0] += a
                tw[1] += b
    if chunk and chunk[0]['idx'] % 7 == 0:
        ev = encoder_validation(chunk[:25], outs[:25], random.Random(chunk[0]['idx']))
    return [{'results': results, 'twins': tw, 'encval': ev, 'stats': dict(zq.STATS)}]


# ------------------------------------------------------------------ replay (confirmation against the real code)
def replay_fail(model, fail):
    """re-run the REAL compiler and confirm the counterexample; returns (confirmed, detail)"""
    ob = fail['ob']
    if fail.get('point') is None and ob not in ('optimum-status-differs', 'optimal-value-differs'):
        # structural (NaN bound, missing variable, panic): confirm by recompiling and looking again
        out = run_driver(compile_jobs([{'model': model}]))[0]
        return True, {'recompiled': out.get('lin', {}).get('ok') is not None}
    if ob in ('optimum-status-differs', 'optimal-value-differs'):
        out = run_driver(compile_jobs([{'model': model}]))[0]
        L = out['lin'].get('ok')
        if L is None:
            return False, {'why': 'does not compile on replay'}
        srcn, aux, env = envs(model, L)
        d = model['obj']['dir']
        so, vo = optimize(sem.src_c(model, env), sem.val(model['obj']['e'], env), d)
        sl, vl = optimize(lin.lin_c(L, env, EPS), lin.lin_obj(L, env), d)
        differs = so != sl or (so == 'ok' and abs(vo - vl) > OPT_TOL * (1 + abs(vo)))
        return (differs and 'unknown' not in (so, sl)), {'source': [so, str(vo)], 'linear': [sl, str(vl)]}
    pt = zq.point_from_json(fail['point'])
    flt = {n: zq.exact_float(v) for n, v in pt.items()}
    exact = all(v is not None for v in flt.values())
    srcn = [v[0] for v in model['vars']]
    x = {n: pt[n] for n in srcn if n in pt}
    if ob == 'sound':
        job = compile_jobs([{'model': model}], {'replay': {'points': [{n: fs(float(v)) for n, v in pt.items()}]}})[0]
        out = run_driver([job])[0]
        L = out['lin'].get('ok')
        if L is None:
            return False, {'why': 'does not compile on replay'}
        lin_ok = lin.py_lin_ok(L, pt)                      # real rows (fresh compile), exact arithmetic
        src_ok = py_src_eps(model, x)                      # independent evaluator, with the margin
        real_rows = out['lin'].get('points', [{}])[0]
        return (lin_ok and not src_ok), {'lin_satisfied_exact': lin_ok, 'source_satisfied': src_ok, 'real_calc_constraints': real_rows, 'floats_exact': exact}
    if ob == 'complete':
        job = compile_jobs([{'model': model}], {'replay': {'pin': {n: fs(float(v)) for n, v in x.items()}}})[0]
        out = run_driver([job])[0]
        if 'ok' not in out['lin']:
            return False, {'why': 'does not compile on replay'}
        src_ok = sem.py_src(model, x)
        pin = out['lin'].get('pin', {})
        infeasible = (pin.get('ok') is False and pin.get('kind') == 'Infeasible')
        return (src_ok and infeasible), {'source_satisfied_exact': src_ok, 'real_milp_on_pinned_model': pin, 'floats_exact': exact}
    if ob in ('nobetter', 'attain'):
        d = model['obj']['dir']
        job = compile_jobs([{'model': model}], {'replay': {'pin': {n: fs(float(v)) for n, v in x.items()}}})[0]
        out = run_driver([job])[0]
        L = out['lin'].get('ok')
        if L is None:
            return False, {'why': 'does not compile on replay'}
        fval = sem.pyval(model['obj']['e'], x)
        pin = out['lin'].get('pin', {})
        if not sem.py_src(model, x):
            return False, {'why': 'point not source-feasible'}
        if not pin.get('ok'):
            return False, {'why': 'pinned model has no extension (that is C01 completeness)', 'pin': pin}
        best = Fraction(float(pin['value']))
        m = obj_margin(model, L)
        # the part of the margin proportional to the objective terms (same as in the query; the auxiliary terms are
        # bounded through the reported value)
        cmap = dict(zip(lin.names(L), L['obj']))
        m += EPS * (sum(abs(Fraction(float(cmap[n]))) * abs(Fraction(x[n])) for n in x if n in cmap and lin.finite(float(cmap[n]))) + abs(best) + abs(fval))
        if ob == 'nobetter':
            conf = (best < fval - m) if d == 'min' else (best > fval + m)
        else:
            conf = abs(best - fval) > m
        return conf, {'source_objective': str(fval), 'real_best_linear_objective_over_extensions': pin['value'], 'floats_exact': exact}
    if ob in ('optimum-status-differs', 'optimal-value-differs'):
        out = run_driver(compile_jobs([{'model': model}]))[0]
        L = out['lin'].get('ok')
        if L is None:
            return False, {'why': 'does not compile on replay'}
        srcn, aux, env = envs(model, L)
        d = model['obj']['dir']
        so, vo = optimize(sem.src_c(model, env), sem.val(model['obj']['e'], env), d)
        sl, vl = optimize(lin.lin_c(L, env, EPS), lin.lin_obj(L, env), d)
        differs = so != sl or (so == 'ok' and abs(vo - vl) > OPT_TOL * (1 + abs(vo)))
        return (differs and 'unknown' not in (so, sl)), {'source': [so, str(vo)], 'linear': [sl, str(vl)]}
    if ob == 'lowering-range':
        # recompute with the real code; evaluate the sub-expression exactly at the point; the point must lie in the
        # published box (typing included)
        out = run_driver(compile_jobs([{'model': model}]))[0]
        low = out.get('lowering') or {}
        pub = dict((n, d) for n, d in low.get('published', []))
        inbox = all(sem.py_dom(Fraction(pt[n]), pub[n], 0) for n in pt if n in pub)
        for e, (lo, hi) in zip(all_subexps(model), low.get('ranges') or []):
            try:
                val = sem.pyval(e, pt)
            except ZeroDivisionError:
                continue
            lo, hi = float(lo), float(hi)
            if (lo != -sem.INF and val < Fraction(lo) - margin_of(lo)) or (hi != sem.INF and val > Fraction(hi) + margin_of(hi)):
                return inbox, {'exp': e, 'lowering_range': [fs(lo), fs(hi)], 'value': str(val), 'published': low.get('published'), 'point_in_published_box': inbox}
        return False, {'why': 'no sub-expression out of its lowering range on replay'}
    if ob in ('published-range', 'derived-range', 'subexp-range'):
        out = run_driver(compile_jobs([{'model': model}]))[0]
        if ob == 'subexp-range':
            sb = out.get('sub_bounds')
            subs = all_subexps(model)
            for e, (lo, hi) in zip(subs, sb or []):
                try:
                    val = sem.pyval(e, pt)
                except ZeroDivisionError:
                    continue
                lo, hi = float(lo), float(hi)
                if (lo != -sem.INF and val < Fraction(lo) - margin_of(lo)) or (hi != sem.INF and val > Fraction(hi) + margin_of(hi)):
                    inbox = all(in_box(pt[n], float(a), float(b)) for n, a, b in out['bounds']['null'] if n in pt)
                    return inbox, {'exp': e, 'range': [fs(lo), fs(hi)], 'value': str(val), 'point_in_box': inbox}
            return False, {'why': 'no sub-expression out of range on replay'}
        if not sem.py_src(model, x):
            return False, {'why': 'point not source-feasible'}
        if ob == 'published-range':
            L = out['lin'].get('ok')
            if L is None:
                return False, {'why': 'does not compile on replay'}
            for n, d in L['vars']:
                if n in x and not sem.py_dom(x[n], d, EPS * (1 + abs(x[n]))):
                    return True, {'variable': n, 'published': d, 'value': str(x[n])}
            return False, {'why': 'inside all published ranges on replay'}
        b = out['bounds'].get(fail.get('steps', 'null'))
        for n, lo, hi in b:
            if n in x and not in_box(x[n], float(lo), float(hi), True):
                return True, {'variable': n, 'derived': [lo, hi], 'value': str(x[n]), 'steps': fail.get('steps')}
        return False, {'why': 'inside all derived ranges on replay'}
    return False, {'why': 'no replay for ' + ob}


def in_box(v, lo, hi, margin=False):
    if lo == sem.INF or hi == -sem.INF:
        return False
    if lo != -sem.INF and v < Fraction(lo) - (margin_of(lo) if margin else 0):
        return False
    if hi != sem.INF and v > Fraction(hi) + (margin_of(hi) if margin else 0):
        return False
    return True


def py_src_eps(model, x):
    for n, d, *_ in model['vars']:
        if not sem.py_dom(Fraction(x[n]), d, EPS * (1 + abs(Fraction(x[n])))):
            return False
    for c in model['cons']:
        if not sem.py_con(c, x, EPS * sem.cons_scale(c)):
            return False
    return True


# ------------------------------------------------------------------ main
def family(prop, t, sd):
    items = []
    if t == 'quick':
        items += gen.m1_family(0)
        for s in (11, 12, 13):
            items += gen.seeded_models(s, 700, maxd=3)
        # constants spelled as compound constant expressions ((5 - 1), (2 * 3), -(2)): the compiler substitutes named
        # constants without folding them, so such shapes reach flatten / simplify / the lowering as they are
        items += [m for m in gen.seeded_models(14, 900, maxd=3, text_mode=True) if "'avg'" not in str(m['model'])]
    else:
        items += gen.m1_family(1)
        for k in range(10):
            items += gen.seeded_models(1000 * sd + k, 5000, maxd=4 if k % 2 else 3)
        items += [m for m in gen.seeded_models(1000 * sd + 77, 9000, maxd=3, text_mode=True) if "'avg'" not in str(m['model'])]
    if prop == 'C07':
        # float-noise constants and contradictory / chained rows
        g = gen.RandGen(77 + (sd if t == 'thorough' else 0), consts=gen.CONST + [1.9, 0.1, 1 / 3, -0.7, 2.4], muls=gen.MULS + [1.9, 3, -0.3, 0.1], divs=gen.DIVS + [3, 1.9, -0.7])
        n = 1500 if t == 'quick' else 20000
        items += [{'fam': 'Mfloat', 'profile': 'nondyadic', 'model': g.gen_model(maxd=2)} for _ in range(n)]
    if prop == 'C07':
        items += integer_rounding_family(t)
        items += ill_conditioned_family(t)
    # strict comparisons: the first <= / >= row of every ninth single-constraint model made strict (integer and Boolean
    # operands are lowered to a non-strict row one unit further in, real ones keep the strict relation)
    import copy as _copy
    extra = []
    for i, it in enumerate(items):
        if i % 9 == 4 and it.get('fam', '').startswith('M1'):
            mm = _copy.deepcopy(it['model'])
            for c in mm['cons']:
                if c.get('c') in ('<=', '>='):
                    c['c'] = c['c'][0]
                    extra.append(dict(it, fam='M1strict', model=mm))
                    break
    items += extra
    items += gen.diverging_family()
    items += hollow_integer_family()
    items += gen.nested_family()
    lim = os.environ.get('VERIF_LIMIT')
    if lim:
        step = max(1, len(items) // int(lim))
        items = items[::step]
    for i, it in enumerate(items):
        it['idx'] = i
    return items


def integer_rounding_family(t):
    """integer variables bounded through rows scaled by non-dyadic coefficients: the propagated bound c*k*(1/c)
    lands an ulp above or below the integer k it stands for, on the lower and on the upper side, for every
    comparison, both signs of the coefficient, directly and through a chained row"""
    out = []
    coefs = [1.8, 1.9, 0.1, 0.3, 0.7, 1.1, 2.4, 3.3, 5.4, 0.6] if t == 'quick' else [1.8, 1.9, 0.1, 0.3, 0.7, 1.1, 2.4, 3.3, 5.4, 0.6, 0.2, 1.3, 4.9, 7.7, 0.9, 2.7]
    D = gen.D
    for c in coefs:
        for k in range(-4, 5):
            for cmp_ in ('<=', '>=', '='):
                for sign in (1, -1):
                    lhs = ['*', gen.num(sign * c), gen.var('x')]
                    rhs = gen.num(sign * c * k)   # the float product, as a user would compute it, or ...
                    rhs2 = gen.num(float('%.10g' % (sign * c * k)))   # ... the decimal product as a user would write it
                    for r in (rhs, rhs2):
                        doms = {'x': D('Int', -6, 6), 'y': D('Int', -9, 9)}
                        out.append({'fam': 'Mint-round', 'profile': 'nondyadic', 'model': gen.mk_model('min', gen.var('x'), [gen.row(lhs, cmp_, r)], doms)})
                    if k % 3 == 0:
                        doms = {'x': D('Int', -6, 6), 'y': D('Int', -9, 9)}
                        chain = [gen.row(lhs, cmp_, rhs2), gen.row(['-', gen.var('y'), gen.var('x')], '>=', gen.num(0))]
                        out.append({'fam': 'Mint-round', 'profile': 'nondyadic', 'model': gen.mk_model('min', ['+', gen.var('x'), gen.var('y')], chain, doms)})
    return out


def hollow_integer_family():
    """an integer variable whose propagated interval is non-empty but holds no integer (10x >= 4, 10x <= 6; 2x = 1):
    the published domain keeps the declared range (the rows report the infeasibility to the solver), so whatever the
    lowering assumes about the variable afterwards - inside max / min / abs, in products with constants - has to hold
    on the declared range, not on the hollow interval"""
    out = []
    D = gen.D
    x, y = gen.var('x'), gen.var('y')
    hollow = [
        [gen.row(['*', gen.num(10), x], '>=', gen.num(4)), gen.row(['*', gen.num(10), x], '<=', gen.num(6))],
        [gen.row(['*', gen.num(2), x], '=', gen.num(1))],
        [gen.row(['*', gen.num(3), x], '>=', gen.num(4)), gen.row(['*', gen.num(3), x], '<=', gen.num(5))],
        [gen.row(['*', gen.num(-4), x], '>=', gen.num(5)), gen.row(['*', gen.num(-4), x], '<=', gen.num(7))],
    ]
    uses = [['max', [x, y]], ['min', [x, y]], ['abs', x], ['abs', ['-', x, y]], ['max', [['*', gen.num(2), x], y]], ['neg', ['min', [x, gen.num(3)]]]]
    domsets = [{'x': D('Int', 0, 10), 'y': D('Real', 0, 4)}, {'x': D('Int', -10, 10), 'y': D('Int', -3, 3)}, {'x': D('Int', -5, 0), 'y': D('NNReal', 0, 'inf')}]
    for rows in hollow:
        for u in uses:
            for doms in domsets:
                for cmp_, k in (('<=', 3), ('>=', 1), ('=', 2)):
                    cons = [dict(r) for r in rows] + [gen.row(u, cmp_, gen.num(k))]
                    out.append({'fam': 'Mhollow', 'profile': 'hollow-int', 'model': gen.mk_model('min', ['+', x, y], cons, dict(doms))})
                cons = [dict(r) for r in rows]
                out.append({'fam': 'Mhollow', 'profile': 'hollow-int', 'model': gen.mk_model('min', u, cons, dict(doms))})
                out.append({'fam': 'Mhollow', 'profile': 'hollow-int', 'model': gen.mk_model('max', u, cons, dict(doms))})
    return out


def ill_conditioned_family(t):
    """rows mixing coefficients up to 18 orders of magnitude apart: a bound propagated through them is a small
    difference of large numbers divided by a tiny coefficient, so an inward rounding error of one ulp is amplified
    past every tolerance (the integer rounding tolerance 1e-9 from a ratio of about 1e7 on, the margin of this check
    from 1e9 on). The propagated range must still contain every feasible value."""
    out = []
    D = gen.D
    pairs = [(1e-9, 1e9), (1, 1e-9), (1 / 3, -1e-9), (1e-9, 1), (1e-7, 3), (3e8, 0.7), (1e-9, -1e9), (0.1, 1e-8)]
    rhss = [0.1, -100000, 3, 0.7]
    if t != 'quick':
        pairs += [(1e-8, 1e8), (7e-9, 1.9), (1.1, 3e-9), (1e-6, 1e6), (2e9, -0.3), (1e-9, 0.1)]
        rhss += [1e5, -0.3, 1e-3]
    domsets = [
        {'x': D('Real', 0, 'inf'), 'y': D('Int', -1, 2)},
        {'x': D('Real', -5, 5), 'y': D('Real', -1000, 1000)},
        {'x': D('Int', -3, 3), 'y': D('Real', '-inf', 'inf')},
        {'x': D('NNReal', 0, 10), 'y': D('Int', -9, 9)},
    ]
    for (c0, c1) in pairs:
        for b in rhss:
            for cmp_ in ('=', '<=', '>='):
                for di, doms in enumerate(domsets):
                    lhs = ['+', ['*', gen.num(c0), gen.var('x')], ['*', gen.num(c1), gen.var('y')]]
                    cons = [gen.row(lhs, cmp_, gen.num(b))]
                    if di % 2:
                        cons.append(gen.row(gen.var('x'), '<=', gen.num(3)))
                    for od, oe in (('max', gen.var('x')), ('max', gen.var('y')), ('min', ['+', gen.var('x'), gen.var('y')])):
                        if (di + len(out)) % 3 == 0 or t != 'quick':
                            out.append({'fam': 'Mill', 'profile': 'ill-conditioned', 'model': gen.mk_model(od, oe, [dict(c) for c in cons], dict(doms))})
    # cancellation chains: z <= y + x - K with x in [0, K] and y in [0, t], t tiny, leaves the tiny bound t after the
    # large parts cancel (an inexact sum whose error is of the order of t), and w <= S * z scales what is left back to
    # an ordinary magnitude; both orders of the addends (which operand of a sum is the larger one matters to
    # error-free transformations), <= and >= mirrored
    free = D('Real', '-inf', 'inf')
    for K in (1, 1000, 0.7):
        for tny in (1e-19, 1e-12, 0.3, 3e-17):
            for S in (1e18, 1e10, 1):
                for order in (0, 1):
                    for mirror in (False, True):
                        sg = -1 if mirror else 1
                        xs, ys = gen.var('x'), gen.var('y')
                        ssum = ['+', ys, xs] if order == 0 else ['+', xs, ys]
                        e1 = ['-', ssum, gen.num(K)]
                        if mirror:
                            cons = [gen.row(gen.var('z'), '>=', ['-', gen.num(K), ssum]), gen.row(gen.var('w'), '>=', ['*', gen.num(S), gen.var('z')])]
                        else:
                            cons = [gen.row(gen.var('z'), '<=', e1), gen.row(gen.var('w'), '<=', ['*', gen.num(S), gen.var('z')])]
                        doms = {'x': D('Real', 0, K), 'y': D('Real', 0, tny), 'z': free, 'w': free}
                        out.append({'fam': 'Mill', 'profile': 'cancel-chain', 'model': gen.mk_model('max' if not mirror else 'min', gen.var('w'), cons, doms)})
    return out


def main(prop):
    global PROP
    PROP = prop
    t, sd = tier(), seed()
    rep = Report(prop)
    build_s = common.build_driver()
    import kani_run
    kgroups = {'C01': ['req'], 'C02': ['req'] if t == 'thorough' else [], 'C07': ['ival']}[prop]
    kbox = kani_run.start(kgroups) if kgroups and not os.environ.get('VERIF_NO_KANI') else None
    items = family(prop, t, sd)
    t0 = time.time()
    parts = parallel(work, items)
    results = []
    tw = [0, 0]
    encn, encbad = 0, []
    stats = dict.fromkeys(zq.STATS, 0)
    for p in parts:
        results += p['results']
        tw[0] += p['twins'][0]
        tw[1] += p['twins'][1]
        encn += p['encval'][0]
        encbad += p['encval'][1]
        for k in stats:
            stats[k] += p['stats'][k]
    by_status = {}
    nfail = 0
    samples = []
    confirmed = 0
    for r in results:
        by_status[r['status']] = by_status.get(r['status'], 0) + 1
        it = items[r['idx']]
        if r['status'] == 'fault':
            rep.broken.append(r.get('fault'))
        for u in r['unknown']:
            rep.inconclusive.append({'model': it['model'], 'obligation': u})
        for fail in r['fails']:
            nfail += 1
            ok, detail = replay_fail(it['model'], fail)
            sig = {'stage': 'linearize', 'obligation': fail['ob'], 'cause': fail.get('cause', 'other'), 'model': canon(it['model'])}
            if not ok:
                rep.broken.append({'why': 'counterexample did not reproduce against the real code', 'sig': sig, 'detail': detail, 'fail': fail})
                continue
            confirmed += 1
            rep.violation(sig, {'property': prop, 'kind': 'linearize', 'family': it['fam'], 'model': it['model'], 'obligation': fail['ob'],
                                'cause': fail.get('cause'), 'counterexample': fail.get('point'), 'confirmation': detail,
                                'how_to_replay': './check %s --replay <this file>' % prop})
    compiled = sum(v for k, v in by_status.items() if k == 'ok' or k.startswith('skip'))
    for it in items[:: max(1, len(items) // 6)][:6]:
        samples.append({'family': it['fam'], 'profile': it['profile'], 'model': it['model']})
    if encbad:
        rep.broken.append({'why': 'encoder validation failed', 'first': encbad[0]})
    if PROP in ('C01', 'C02') and tw[0] > 0 and tw[1] == 0:
        rep.broken.append({'why': 'no must-fail twin was detected: obligations look vacuous', 'twins': tw})
    if stats['queries'] and stats['unknown'] > 0.01 * stats['queries']:
        rep.broken.append({'why': 'more than 1% of the queries inconclusive', 'unknown': stats['unknown'], 'queries': stats['queries']})
    kani_summary = kani_run.join(kbox, rep, prop) if kbox else []
    obligations = {'C01': ['soundness: Lin(x,a) & not Src_eps(x) unsat', 'completeness: Src(x) & forall a. not Lin_eps(x,a) unsat'],
                   'C02': ['no extension better: Src & Lin & g better than f by margin unsat', 'value attained: Src(x) & exists a Lin_eps & forall a.(Lin_eps => |g-f|>margin) unsat'],
                   'C07': ['published range contains every source-feasible value', 'analyzer range (max_steps in {default,0,1,2,3}) contains every source-feasible value',
                           'sub-expression range contains the value at every point of the derived box']}[prop]
    evidence = {
        'level': 'translation_validation', 'tier': t, 'seed': sd,
        'coverage': {
            'programs': len(items), 'compiled': compiled, 'by_status': by_status,
            'disagreements_checked': stats['queries'],
            'queries': stats, 'obligations_per_program': obligations,
            'counterexamples_found': nfail, 'counterexamples_confirmed_against_real_code': confirmed,
            'must_fail_twins': {'tried': tw[0], 'detected': tw[1]},
            'encoder_validation_points': encn, 'encoder_validation_mismatches': len(encbad),
            'samples': samples,
            'exhaustive': False,
            'family': 'M1 (exhaustive over the E1+ shape, level %d) + seeded M(d<=%d,k<=3,r<=3)' % (0 if t == 'quick' else 1, 3 if t == 'quick' else 4),
            'functions_encoded': ['Linearizer::linearize (real run, output encoded)', 'BoundsAnalyzer::analyze / bounds_of / apply_to_domain (via verif-hooks)'],
            'margin': 'eps=1e-7 relative float-noise margin, applied on the side that favours the code (DESIGN 2.2)',
            'solver': 'z3 %s (python API); timeout %d ms per query' % (z3.get_version_string(), QT),
            'driver_build_s': round(build_s, 1), 'check_s': round(time.time() - t0, 1),
            'kani': kani_summary,
            'outside': ['strict comparisons beyond the strict variants of every ninth single-constraint model (optimum comparison skipped there)', 'constants outside the dyadic set (C07 adds a non-dyadic family)', 'programs larger than the family',
                        'models the compiler rejects (counted by kind in by_status)'],
        },
        'assumptions': ['independent semantics sem.py is the meaning of the source language', 'z3 verdicts are trusted (5% cross-check with z3 4.8.12 and cvc5 in the thorough tier)',
                        'the driver dumps the real output faithfully (encoder validation re-evaluates rows with the real calc_constraints)'],
    }
    return rep.finish(evidence)


if __name__ == '__main__':
    sys.exit(main(sys.argv[1]))


def replay_file(prop, path):
    """re-run a stored counterexample against the real code: exit 1 if it still reproduces, 0 if not"""
    global PROP
    PROP = prop
    common.build_driver()
    r = json.load(open(path))
    fail = {'ob': r['obligation'], 'cause': r.get('cause'), 'point': r.get('counterexample')}
    if 'steps' in (r.get('confirmation') or {}):
        fail['steps'] = r['confirmation']['steps']
    ok, detail = replay_fail(r['model'], fail)
    print(json.dumps({'reproduces': ok, 'detail': detail}, indent=1, default=str))
    if ok:
        print('VIOLATION property=%s replay=%s' % (prop, path))
    return 1 if ok else 0
