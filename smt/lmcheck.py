"""C13 / C05 / C14(S): SMT validation of standard-form conversion, solver verdicts and simplex traces
on the L(n,m) family of linear models.  The real entry points are run by the driver; z3 is the
exact rational oracle for the for-all-points obligations."""
import copy, json, os, sys, time
from fractions import Fraction
import z3
import common, sem, lin, gen, zq
from common import run_driver, parallel, Report, tier, seed, fs, canon

PROP = None
QT = 10000
TOL = Fraction(1, 10 ** 6)


def F(s):
    return Fraction(float(s))


def Qs(s):
    return sem.Q(float(s))


# ------------------------------------------------------------------ encodings
def lm_env(L):
    return {n: z3.Real(n) for n in lin.names(L)}


def std_rows_c(S, y, tol=None):
    cs = []
    for r in S['rows']:
        a = [float(x) for x in r['a']]
        b = float(r['b'])
        if not all(lin.finite(x) for x in a + [b]):
            cs.append(z3.BoolVal(False))
            continue
        lhs = z3.Sum([sem.Q(x) * y[i] for i, x in enumerate(a) if x != 0] + [z3.RealVal(0)])
        if tol:
            m = sem.Q(tol * (1 + abs(Fraction(b)) + sum(abs(Fraction(x)) for x in a)))
            cs.append(z3.And(lhs <= sem.Q(b) + m, lhs >= sem.Q(b) - m))
        else:
            cs.append(lhs == sem.Q(b))
    return cs


def std_obj(S, y):
    return z3.Sum([Qs(c) * y[i] for i, c in enumerate(S['obj']) if float(c) != 0] + [z3.RealVal(0)])


def back_map(L, S, y):
    """original variable -> z3 term over the standard variables, as OptimalTableau::as_lp_solution maps back"""
    idx = {n: i for i, n in enumerate(S['vars'])}
    out = {}
    for n in lin.names(L):
        if n in idx:
            out[n] = y[idx[n]]
        elif ('$p' + n) in idx and ('$m' + n) in idx:
            out[n] = y[idx['$p' + n]] - y[idx['$m' + n]]
        else:
            out[n] = None
    return out


# ------------------------------------------------------------------ C13
def judge_c13(spec, out, res):
    L = out['lm']
    st = out.get('std', {})
    if st.get('panic'):
        res['fails'].append({'ob': 'std-panic', 'point': None})
        return
    if not st.get('ok'):
        if L['dir'] == 'solve':
            res['status'] = 'skip-satisfy'   # the conversion documents min/max only
            return
        res['fails'].append({'ob': 'std-rejected', 'detail': st, 'point': None})
        return
    S = st['ok']
    n = len(S['vars'])
    y = [z3.Real('y%d' % i) for i in range(n)]
    yv = {'y%d' % i: y[i] for i in range(n)}
    # shape: equalities with non-negative right-hand sides (exact)
    for i, r in enumerate(S['rows']):
        if not float(r['b']) >= 0:
            res['fails'].append({'ob': 'rhs-nonnegative', 'row': i, 'rhs': r['b'], 'point': None})
        if len(r['a']) != n:
            res['fails'].append({'ob': 'row-width', 'row': i, 'point': None})
    if len(S['obj']) != n:
        res['fails'].append({'ob': 'objective-width', 'point': None})
        return
    if res['fails']:
        return
    x = lm_env(L)
    bm = back_map(L, S, y)
    if any(v is None for v in bm.values()):
        res['fails'].append({'ob': 'variable-lost', 'missing': [k for k, v in bm.items() if v is None], 'point': None})
        return
    LM = lin.lin_c(L, x)
    g = lin.lin_obj(L, x)
    sign = -1 if S['flip'] else 1
    if (L['dir'] == 'max') != bool(S['flip']):
        res['fails'].append({'ob': 'flip-flag', 'point': None})
        return
    stdsys = z3.And(std_rows_c(S, y) + [v >= 0 for v in y])
    link = z3.And([x[k] == bm[k] for k in x])
    # objective relation used by OptimalTableau::optimal_value: original = -/+ standard + offset
    objrel = (g == sign * std_obj(S, y) + Qs(S['off']))
    # (a) every original feasible point has a preimage with the same objective
    v, pt = ask(res, 'preimage', [LM, z3.ForAll(y, z3.Not(z3.And(stdsys, link, objrel)))], x)
    if v == 'sat':
        res['fails'].append({'ob': 'preimage', 'point': zq.point_json(pt)})
    # (b) every standard feasible point maps back to an original feasible point with the same objective
    xb = {k: bm[k] for k in x}
    LMb = lin.lin_c(L, xb)
    gb = lin.lin_obj(L, xb)
    v, pt = ask(res, 'mapback', [stdsys, z3.Not(z3.And(LMb, gb == sign * std_obj(S, y) + Qs(S['off'])))], yv)
    if v == 'sat':
        res['fails'].append({'ob': 'mapback', 'point': zq.point_json(pt)})


# ------------------------------------------------------------------ C05
SIMPLEX_BASED = ('milp', 'auto', 'micro', 'slow')
ENGINE = {'milp': 'microlp', 'auto': 'microlp', 'micro': 'microlp', 'slow': 'tableau', 'clarabel': 'clarabel'}


def has_free(L):
    return any(d['k'] == 'Real' and float(d['lo']) == -sem.INF and float(d['hi']) == sem.INF for _, d in L['vars'])


def direction_exists(L):
    """is there a recession direction that improves the objective? (quantifier-free)"""
    d = {n: z3.Real('d_' + n) for n in lin.names(L)}
    cs = []
    for n, dom in L['vars']:
        if dom['k'] in ('Boolean', 'Int'):
            cs.append(d[n] == 0)
            continue
        lo, hi = float(dom['lo']), float(dom['hi'])
        if dom['k'] == 'NNReal':
            lo = max(lo, 0.0)
        if lo != -sem.INF:
            cs.append(d[n] >= 0)
        if hi != sem.INF:
            cs.append(d[n] <= 0)
    ns = lin.names(L)
    for r in L['rows']:
        a, c, b = lin.row_parts(r)
        lhs = z3.Sum([sem.Q(v) * d[n] for v, n in zip(a, ns) if v != 0] + [z3.RealVal(0)])
        cs.append(lhs <= 0 if c == '<=' else (lhs >= 0 if c == '>=' else lhs == 0))
    obj = z3.Sum([Qs(c) * d[n] for c, n in zip(L['obj'], ns) if float(c) != 0] + [z3.RealVal(0)])
    cs.append(obj < 0 if L['dir'] == 'min' else obj > 0)
    return cs


def hang_class(L):
    """mechanical description of a model on which a solver did not return (used to key known findings)"""
    free = [n for n, d in L['vars'] if d['k'] == 'Real' and float(d['lo']) == -sem.INF and float(d['hi']) == sem.INF]
    half = [n for n, d in L['vars'] if d['k'] in ('Real', 'NNReal') and (float(d['lo']) == -sem.INF) != (float(d['hi']) == sem.INF)]
    ints = [n for n, d in L['vars'] if d['k'] in ('Boolean', 'Int')]
    return 'free=%d,halfbounded=%d,integral=%d' % (len(free), len(half), len(ints))


def solver_tol(name):
    return Fraction(1, 10 ** 4) if name == 'clarabel' else TOL


def judge_solution(L, name, r, res, x, LM, g, want_kinds=True, gap=None):
    """r: driver result of one entry point on linear model L"""
    tol = solver_tol(name)
    if r.get('panic'):
        res['fails'].append({'ob': 'solver-panic', 'solver': name, 'point': None})
        return None
    if r.get('hang'):
        res['fails'].append({'ob': 'solver-hang', 'solver': name, 'engine': ENGINE.get(name, name),
                             'has_free_variable': has_free(L), 'point': None})
        return None
    if r.get('ok'):
        vals = {nm: F(v) for nm, v, _ in r['x']}
        names_ = lin.names(L)
        if sorted(vals) != sorted(names_) or len(r['x']) != len(names_):
            res['fails'].append({'ob': 'assignment-shape', 'solver': name, 'got': sorted(vals), 'point': None})
            return None
        val = F(r['value'])
        ptol = tol * (1 + max([abs(v) for v in vals.values()] + [0]))
        if not lin.py_lin_ok(L, vals, tol=ptol, row_tol=None):
            # judge rows with a margin scaled by the row
            bad = row_violations(L, vals, tol)
            if bad:
                res['fails'].append({'ob': 'returned-point-infeasible', 'solver': name, 'violated': bad, 'value': r['value'], 'x': {k: str(v) for k, v in vals.items()}, 'point': None})
                return 'ok'
        if L['dir'] != 'solve':
            ov = lin.py_obj(L, vals)
            if abs(ov - val) > tol * (1 + abs(val)) * 10:
                res['fails'].append({'ob': 'reported-objective', 'solver': name, 'reported': r['value'], 'at_point': str(ov), 'point': None})
            m = sem.Q(tol * (1 + abs(val)) + (abs(val) * gap if gap else 0))
            better = (g < sem.Q(val) - m) if L['dir'] == 'min' else (g > sem.Q(val) + m)
            if r.get('status') == 'Optimal':
                v, pt = ask(res, 'optimal:' + name, [LM, better], x)
                if v == 'sat':
                    tiny = any(0 < abs(float(c)) < 1e-5 for c in L['obj'])
                    res['fails'].append({'ob': 'not-optimal', 'solver': name, 'engine': ENGINE.get(name, name), 'reported': r['value'], 'status': r.get('status'),
                                         'objective_coefficient_below_1e-5': tiny, 'point': zq.point_json(pt)})
        return 'ok'
    kind = r.get('kind')
    if kind == 'Infeasible':
        v, pt = ask(res, 'infeasible:' + name, [LM], x)
        if v == 'sat':
            res['fails'].append({'ob': 'wrong-infeasible', 'solver': name, 'point': zq.point_json(pt)})
        return 'Infeasible'
    if kind == 'Unbounded':
        v, pt = ask(res, 'unbounded-feasible:' + name, [LM], None)
        if v == 'unsat':
            res['fails'].append({'ob': 'unbounded-but-infeasible', 'solver': name, 'engine': ENGINE.get(name, name), 'has_free_variable': has_free(L), 'point': None})
        elif L['dir'] == 'solve':
            res['fails'].append({'ob': 'unbounded-on-satisfy', 'solver': name, 'point': None})
        else:
            v, _ = ask(res, 'unbounded-ray:' + name, direction_exists(L), None)
            if v == 'unsat':
                res['fails'].append({'ob': 'unbounded-but-bounded', 'solver': name, 'engine': ENGINE.get(name, name), 'has_free_variable': has_free(L), 'point': None})
        return 'Unbounded'
    if kind in ('InvalidDomain', 'UnimplementedOptimizationType', 'UnavailableComparison'):
        # the entry point documents that it does not accept this model: outside the property
        res.setdefault('other_errors', []).append((name, kind))
        return 'not-accepted'
    if want_kinds and name in SIMPLEX_BASED:
        res['fails'].append({'ob': 'verdict-kind', 'solver': name, 'engine': ENGINE.get(name, name), 'kind': kind, 'msg': (r.get('msg') or '')[:60],
                             'has_free_variable': has_free(L), 'point': None})
    else:
        res.setdefault('other_errors', []).append((name, kind))
    return 'err:' + str(kind)


def row_violations(L, vals, tol):
    bad = []
    for n, d in L['vars']:
        if not sem.py_dom(vals[n], d, tol * (1 + abs(vals[n]))):
            bad.append('domain:' + n)
    for i, (lhs, c, rhs) in enumerate(lin.py_rows(L, vals)):
        if lhs is None:
            bad.append('row%d:nonfinite' % i)
            continue
        a, _, _ = lin.row_parts(L['rows'][i])
        m = tol * (1 + abs(rhs) + sum(abs(Fraction(x) * vals[n]) for x, n in zip(a, lin.names(L))))
        if (c == '<=' and lhs > rhs + m) or (c == '>=' and lhs < rhs - m) or (c == '=' and abs(lhs - rhs) > m):
            bad.append('row%d' % i)
    return bad


def judge_c05(spec, out, res):
    L = out['lm']
    x = lm_env(L)
    LM = lin.lin_c(L, x)
    g = lin.lin_obj(L, x)
    verdicts = {}
    for name in ('milp', 'auto', 'micro', 'clarabel', 'slow'):
        if name in out:
            verdicts[name] = (judge_solution(L, name, out[name], res, x, LM, g), out[name])
    # agreement of everyone who answered
    ks = {n: v for n, (v, _) in verdicts.items() if v in ('ok', 'Infeasible', 'Unbounded')}
    # a disagreement in which one side was already refuted by the oracle above is that same failure
    if len(set(ks.values())) > 1 and not res['fails']:
        res['fails'].append({'ob': 'solvers-disagree', 'verdicts': ks, 'point': None})
    oks = [(n, F(r['value'])) for n, (v, r) in verdicts.items() if v == 'ok']
    if L['dir'] != 'solve':
        for (n1, v1) in oks:
            for (n2, v2) in oks:
                if n1 < n2 and abs(v1 - v2) > Fraction(2, 10 ** 4) * (1 + abs(v1)):
                    res['fails'].append({'ob': 'optima-disagree', 'a': [n1, str(v1)], 'b': [n2, str(v2)], 'point': None})


# ------------------------------------------------------------------ C14 (traces)
BOX = 10
TTOL = Fraction(1, 10 ** 6)


def tab_sys(T, y, z, tol=None):
    """rows A y = b and the objective row z = -value + c.y of one tableau"""
    cs = []
    rows = [([float(v) for v in a], float(b)) for a, b in zip(T['a'], T['b'])]
    for a, b in rows:
        lhs = z3.Sum([sem.Q(v) * y[i] for i, v in enumerate(a) if v != 0] + [z3.RealVal(0)])
        cs.append(eq_tol(lhs, sem.Q(b), tol, a, b))
    c = [float(v) for v in T['c']]
    zz = z3.Sum([sem.Q(v) * y[i] for i, v in enumerate(c) if v != 0] + [sem.Q(-float(T['value']))])
    cs.append(eq_tol(z, zz, tol, c, float(T['value'])))
    return cs


def eq_tol(lhs, rhs, tol, a, b):
    if not tol:
        return lhs == rhs
    m = sem.Q(tol * (1 + abs(Fraction(b)) + BOX * sum(abs(Fraction(v)) for v in a)))
    return z3.And(lhs <= rhs + m, lhs >= rhs - m)


def judge_c14(spec, out, res):
    tr = out.get('trace:200') or out.get('trace')
    if tr is None or tr.get('panic'):
        res['fails'].append({'ob': 'trace-panic', 'point': None})
        return
    if 'std_err' in tr:
        res['status'] = 'skip-not-standardizable'
        return
    S = tr['std']
    L = out['lm']
    if 'tab_err' in tr:
        # two-phase start says infeasible: the solver decides whether that is true
        n = len(S['vars'])
        y = [z3.Real('y%d' % i) for i in range(n)]
        v, pt = ask(res, 'start-infeasible', std_rows_c(S, y) + [t >= 0 for t in y], {'y%d' % i: y[i] for i in range(n)})
        if 'Infesible' in tr['tab_err'] or 'Infeasible' in tr['tab_err']:
            if v == 'sat':
                res['fails'].append({'ob': 'start-wrongly-infeasible', 'point': zq.point_json(pt)})
            res['status'] = 'infeasible-start'
        else:
            res['fails'].append({'ob': 'start-error', 'err': tr['tab_err'], 'feasible': v, 'point': None})
        return
    steps = tr['trace']
    T0 = steps[0]['t']
    nv = len(T0['c'])
    if nv != len(S['vars']):
        res['fails'].append({'ob': 'tableau-width', 'point': None})
        return
    y = [z3.Real('y%d' % i) for i in range(nv)]
    z = z3.Real('z')
    yv = {'y%d' % i: y[i] for i in range(nv)}
    box = [z3.And(t >= -BOX, t <= BOX) for t in y] + [z >= -1000, z <= 1000]
    # the starting tableau (possibly after a two-phase start) describes the standard form: same
    # solutions, and its objective row is the standard objective
    stdsys = std_rows_c(S, y) + [z == std_obj(S, y)]
    stdsys_t = std_rows_c(S, y, TTOL) + [eq_tol(z, std_obj(S, y), TTOL, [float(c) for c in S['obj']], 0.0)]
    v, pt = ask(res, 'start=>std', tab_sys(T0, y, z) + box + [z3.Not(z3.And(stdsys_t))], yv)
    if v == 'sat':
        res['fails'].append({'ob': 'start-not-implied-by-standard-form', 'dir': 'tableau=>std', 'point': zq.point_json(pt)})
    v, pt = ask(res, 'std=>start', stdsys + box + [z3.Not(z3.And(tab_sys(T0, y, z, TTOL)))], yv)
    if v == 'sat':
        res['fails'].append({'ob': 'start-not-implied-by-standard-form', 'dir': 'std=>tableau', 'point': zq.point_json(pt)})
    prev = T0
    prev_val = -float(T0['value'])
    evals = []
    for k, st in enumerate(steps):
        T = st['t']
        # evaluations of the concrete tableau (not solver-decided; reported separately)
        basis = T['basis']
        for r, col in enumerate(basis):
            for r2 in range(len(T['a'])):
                want = 1.0 if r2 == r else 0.0
                if abs(float(T['a'][r2][col]) - want) > 1e-6:
                    evals.append({'ob': 'basis-column-not-unit', 'step': k, 'col': col})
            if abs(float(T['c'][col])) > 1e-6:
                evals.append({'ob': 'basis-reduced-cost-nonzero', 'step': k, 'col': col})
        if len(set(basis)) != len(basis):
            evals.append({'ob': 'basis-duplicate', 'step': k})
        if any(float(b) < -1e-6 for b in T['b']):
            evals.append({'ob': 'basic-solution-negative', 'step': k})
        cur = -float(T['value'])
        if cur > prev_val + 1e-6 * (1 + abs(prev_val)):
            evals.append({'ob': 'objective-got-worse', 'step': k, 'from': prev_val, 'to': cur})
        prev_val = cur
        if k == 0:
            continue
        if st.get('leave') is not None and T['basis'][st['leave']] != st['enter']:
            evals.append({'ob': 'basis-bookkeeping', 'step': k})
        # solver-decided: the step preserves the solution set (two directions, inside the box, within tolerance)
        v, pt = ask(res, 'step%d=>' % k, tab_sys(prev, y, z) + box + [z3.Not(z3.And(tab_sys(T, y, z, TTOL)))], yv)
        if v == 'sat':
            res['fails'].append({'ob': 'step-loses-equivalence', 'step': k, 'dir': 'old=>new', 'point': zq.point_json(pt)})
        v, pt = ask(res, 'step%d<=' % k, tab_sys(T, y, z) + box + [z3.Not(z3.And(tab_sys(prev, y, z, TTOL)))], yv)
        if v == 'sat':
            res['fails'].append({'ob': 'step-loses-equivalence', 'step': k, 'dir': 'new=>old', 'point': zq.point_json(pt)})
        prev = T
    for e in evals[:3]:
        e['point'] = None
        res['fails'].append(e)
    end = tr['end']
    Tn = steps[-1]['t']
    feas = std_rows_c(S, y) + [t >= 0 for t in y]
    if end == 'finished':
        zf = -float(Tn['value'])
        m = sem.Q(TTOL * (1 + abs(Fraction(zf))) * 10)
        v, pt = ask(res, 'final-optimal', feas + [std_obj(S, y) < sem.Q(zf) - m], yv)
        if v == 'sat':
            res['fails'].append({'ob': 'final-not-optimal', 'reported': fs(zf), 'point': zq.point_json(pt)})
        # the final basic solution is a feasible point of the standard form with that value
        vals = [Fraction(0)] * nv
        for r, col in enumerate(Tn['basis']):
            vals[col] = F(Tn['b'][r])
        for i, r in enumerate(S['rows']):
            lhs = sum(F(a) * vals[j] for j, a in enumerate(r['a']))
            if abs(lhs - F(r['b'])) > TTOL * 10 * (1 + abs(F(r['b']))):
                res['fails'].append({'ob': 'final-basic-solution-violates-original-row', 'row': i, 'point': None})
                break
    elif end == 'Unbounded':
        v, _ = ask(res, 'unbounded-feasible', feas, None)
        d = [z3.Real('d%d' % i) for i in range(nv)]
        ray = [t >= 0 for t in d]
        for r in S['rows']:
            ray.append(z3.Sum([Qs(a) * d[i] for i, a in enumerate(r['a']) if float(a) != 0] + [z3.RealVal(0)]) == 0)
        ray.append(z3.Sum([Qs(c) * d[i] for i, c in enumerate(S['obj']) if float(c) != 0] + [z3.RealVal(0)]) < 0)
        v2, _ = ask(res, 'unbounded-ray', ray, None)
        if v != 'sat' or v2 != 'sat':
            res['fails'].append({'ob': 'unbounded-report-not-genuine', 'feasible': v, 'ray': v2, 'point': None})
    elif end != 'limit':
        res['fails'].append({'ob': 'trace-did-not-finish', 'end': end, 'steps': len(steps), 'point': None})
    # the packaged step-by-step solver must end too, with the same optimum
    sb = out.get('steps:1000') or out.get('steps')
    if sb is not None and end == 'finished':
        if sb.get('err') or sb.get('panic'):
            res['fails'].append({'ob': 'step-by-step-failed', 'err': sb.get('err'), 'point': None})
    if end == 'limit':
        # raw `Tableau::step` (Dantzig's rule, every pivot above validated) is still pivoting after 200 steps: the
        # vertex is one on which that rule cycles. The METHOD (`solve_step_by_step`, which falls back to Bland's rule
        # when the objective stalls) must then finish within its limit, at the true optimum / a genuine unbounded report.
        res['cycling'] = True
        if sb is None or sb.get('panic') or sb.get('err') not in (None, 'Unbounded'):
            res['fails'].append({'ob': 'cycling-not-escaped', 'err': (sb or {}).get('err'), 'raw_steps': len(steps) - 1, 'point': None})
        elif sb.get('err') == 'Unbounded':
            v, _ = ask(res, 'cyc-unbounded-feasible', feas, None)
            d = [z3.Real('d%d' % i) for i in range(nv)]
            ray = [t >= 0 for t in d]
            for r in S['rows']:
                ray.append(z3.Sum([Qs(a) * d[i] for i, a in enumerate(r['a']) if float(a) != 0] + [z3.RealVal(0)]) == 0)
            ray.append(z3.Sum([Qs(c) * d[i] for i, c in enumerate(S['obj']) if float(c) != 0] + [z3.RealVal(0)]) < 0)
            v2, _ = ask(res, 'cyc-unbounded-ray', ray, None)
            if v != 'sat' or v2 != 'sat':
                res['fails'].append({'ob': 'unbounded-report-not-genuine', 'feasible': v, 'ray': v2, 'point': None})
        else:
            Tf = sb['final']
            zf = -float(Tf['value'])
            m = sem.Q(TTOL * (1 + abs(Fraction(zf))) * 10)
            v, pt = ask(res, 'cyc-final-optimal', feas + [std_obj(S, y) < sem.Q(zf) - m], yv)
            if v == 'sat':
                res['fails'].append({'ob': 'final-not-optimal', 'reported': fs(zf), 'point': zq.point_json(pt)})
            vals = [Fraction(0)] * nv
            for r, col in enumerate(Tf['basis']):
                vals[col] = F(Tf['b'][r])
            if any(v_ < -TTOL for v_ in vals):
                res['fails'].append({'ob': 'basic-solution-negative', 'step': 'final', 'point': None})
            for i, r in enumerate(S['rows']):
                lhs = sum(F(a) * vals[j] for j, a in enumerate(r['a']))
                if abs(lhs - F(r['b'])) > TTOL * 10 * (1 + abs(F(r['b']))):
                    res['fails'].append({'ob': 'final-basic-solution-violates-original-row', 'row': i, 'point': None})
                    break
            if abs(sum(F(c) * vals[j] for j, c in enumerate(S['obj'])) - Fraction(zf)) > TTOL * 10 * (1 + abs(Fraction(zf))):
                res['fails'].append({'ob': 'final-value-is-not-the-objective-at-the-basic-solution', 'point': None})
    res['steps'] = len(steps) - 1


# ------------------------------------------------------------------ plumbing
def ask(res, name, formulas, want, **kw):
    v, pt, _ = zq.query(formulas, timeout_ms=QT, want_vars=want, **kw)
    res['q'] += 1
    if v == 'unknown':
        res['unknown'].append(name)
    return v, pt


def ops_for(spec):
    cont = all(d['k'] in ('Real', 'NNReal') for _, d in spec['vars'])
    if PROP == 'C13':
        return ['std']
    if PROP == 'C05':
        return ['milp', 'auto'] + (['micro', 'clarabel', 'slow'] if cont else [])
    if PROP == 'C14':
        return [['trace', 200], ['steps', 1000]]
    return []


def jobs_for(items):
    return [{'cmd': 'lm', 'lm': it['lm'], 'ops': ops_for(it['lm'])} for it in items]


def judge(item, out):
    res = {'idx': item['idx'], 'fails': [], 'q': 0, 'unknown': [], 'status': 'ok'}
    if out.get('crash') or out.get('panic') or out.get('build_panic'):
        res['status'] = 'driver-panic'
        return res
    if PROP == 'C13':
        judge_c13(item['lm'], out, res)
    elif PROP == 'C05':
        judge_c05(item['lm'], out, res)
    elif PROP == 'C14':
        judge_c14(item['lm'], out, res)
    return res


def work(chunk):
    zq.reset_stats()
    outs = run_driver(jobs_for(chunk))
    results = []
    for it, out in zip(chunk, outs):
        try:
            results.append(judge(it, out))
        except Exception:
            import traceback
            results.append({'idx': it['idx'], 'fails': [], 'q': 0, 'unknown': [], 'status': 'fault', 'fault': traceback.format_exc()[-800:]})
    tw = [0, 0]
    for it, out in zip(chunk, outs):
        if it['idx'] % 25 == 0:
            a, b = twins(it, out)
            tw[0] += a
            tw[1] += b
    return [{'results': results, 'twins': tw, 'stats': dict(zq.STATS)}]


def twins(item, out):
    """must-fail mutants of the REAL output: the obligations have to notice them"""
    tried = det = 0
    try:
        if PROP == 'C13' and out.get('std', {}).get('ok'):
            S = out['std']['ok']
            muts = []
            if S['rows']:
                m = copy.deepcopy(out)
                del m['std']['ok']['rows'][0]
                muts.append(m)
                m = copy.deepcopy(out)
                r = m['std']['ok']['rows'][0]
                r['b'] = fs(float(r['b']) + 1)
                muts.append(m)
                m = copy.deepcopy(out)
                r = m['std']['ok']['rows'][-1]
                for j, a in enumerate(r['a']):
                    if float(a) != 0:
                        r['a'][j] = fs(-float(a))
                        break
                muts.append(m)
            m = copy.deepcopy(out)
            m['std']['ok']['off'] = fs(float(S['off']) + 1)
            muts.append(m)
            for m in muts:
                res = {'idx': -1, 'fails': [], 'q': 0, 'unknown': [], 'status': 'ok'}
                judge_c13(item['lm'], m, res)
                tried += 1
                det += 1 if res['fails'] else 0
        elif PROP == 'C05':
            for name in ('milp', 'slow'):
                r = out.get(name)
                if r and r.get('ok') and out['lm']['dir'] != 'solve':
                    m = copy.deepcopy(out)
                    worse = 1 if out['lm']['dir'] == 'min' else -1
                    m[name]['value'] = fs(float(r['value']) + worse)
                    res = {'idx': -1, 'fails': [], 'q': 0, 'unknown': [], 'status': 'ok'}
                    judge_c05(item['lm'], {k: v for k, v in m.items() if k in ('lm', name)}, res)
                    tried += 1
                    det += 1 if res['fails'] else 0
                if r and not r.get('ok') and r.get('kind') == 'Infeasible':
                    pass
        elif PROP == 'C14':
            tr = out.get('trace:200')
            if tr and tr.get('trace') and len(tr['trace']) > 1:
                m = copy.deepcopy(out)
                T = m['trace:200']['trace'][-1]['t']
                T['b'][0] = fs(float(T['b'][0]) + 1)
                res = {'idx': -1, 'fails': [], 'q': 0, 'unknown': [], 'status': 'ok'}
                judge_c14(item['lm'], m, res)
                tried += 1
                det += 1 if res['fails'] else 0
    except Exception:
        pass
    return tried, det


# ------------------------------------------------------------------ replay against the real code
def replay_fail(spec, fail):
    """re-run the real entry point and re-judge: a counterexample must reproduce"""
    global PROP
    job = jobs_for([{'lm': spec}])[0]
    if PROP == 'C05' and fail.get('solver'):
        job['ops'] = [o for o in job['ops'] if o == fail['solver']]
    out = run_driver([job])[0]
    res = {'idx': -1, 'fails': [], 'q': 0, 'unknown': [], 'status': 'ok'}
    judge({'idx': -1, 'lm': spec}, out) if False else None
    if PROP == 'C13':
        judge_c13(spec, out, res)
    elif PROP == 'C05':
        judge_c05(spec, out, res)
    elif PROP == 'C14':
        judge_c14(spec, out, res)
    same = [f for f in res['fails'] if f['ob'] == fail['ob'] and f.get('solver') == fail.get('solver')]
    if not same:
        return False, {'why': 'not reproduced on a fresh run of the real code'}
    detail = {'real_output': {k: out[k] for k in out if k != 'lm'}}
    # independent confirmation of the solver-found point with exact arithmetic on the real output
    f = same[0]
    if f.get('point') and PROP == 'C05' and f['ob'] in ('not-optimal', 'wrong-infeasible'):
        pt = zq.point_from_json(f['point'])
        L = out['lm']
        ok = lin.py_lin_ok(L, pt)
        detail['witness_feasible_exact'] = ok
        if f['ob'] == 'not-optimal':
            detail['witness_objective'] = str(lin.py_obj(L, pt))
        if not ok:
            return False, detail
    if f.get('point') and PROP == 'C13' and f['ob'] == 'mapback':
        pt = zq.point_from_json(f['point'])
        S = out['std']['ok']
        yv = [pt['y%d' % i] for i in range(len(S['vars']))]
        rows_ok = all(sum(F(a) * yv[j] for j, a in enumerate(r['a'])) == F(r['b']) for r in S['rows']) and all(v >= 0 for v in yv)
        idx = {n: i for i, n in enumerate(S['vars'])}
        xb = {}
        for n in lin.names(out['lm']):
            xb[n] = yv[idx[n]] if n in idx else yv[idx['$p' + n]] - yv[idx['$m' + n]]
        detail['standard_point_feasible_exact'] = rows_ok
        detail['mapped_back_point'] = {k: str(v) for k, v in xb.items()}
        detail['mapped_back_feasible_in_original'] = lin.py_lin_ok(out['lm'], xb)
    return True, detail


def replay_work(chunk):
    return [replay_fail(lm_, fail) for lm_, fail in chunk]


def family(prop, t, sd):
    if prop == 'C13':
        if t == 'quick':
            specs = gen.l_exhaustive(cont_only=True)[::2] + gen.l_seeded(21, 3000, cont_only=True, tiny=True, offsets=True, probe=('coef', 'rhs', 'obj', 'off'))
        else:
            specs = gen.l_exhaustive(cont_only=True, level=1) + sum([gen.l_seeded(100 * sd + k, 10000, cont_only=True, tiny=True, offsets=True) for k in range(5)], [])
    elif prop == 'C05':
        if t == 'quick':
            specs = gen.l_exhaustive()[::5] + gen.l_seeded(31, 3000, offsets=True, satisfy=True, probe=('off', 'solver')) + gen.l_seeded(32, 1500, cont_only=True, offsets=True, probe=('off', 'solver'))
        else:
            specs = gen.l_exhaustive(level=1)[::3] + sum([gen.l_seeded(200 * sd + k, 10000, offsets=True, satisfy=True, cont_only=(k % 2 == 1)) for k in range(6)], [])
    else:
        if t == 'quick':
            specs = gen.l_exhaustive(cont_only=True)[::4] + gen.l_seeded(41, 3000, cont_only=True) + degenerate_family() + cycling_family() + tolerance_scale_family(t)
        else:
            specs = gen.l_exhaustive(cont_only=True, level=1)[::2] + sum([gen.l_seeded(300 * sd + k, 10000, cont_only=True) for k in range(5)], []) + degenerate_family() + cycling_family() + tolerance_scale_family(t)
        specs = [s for s in specs if s['dir'] != 'solve']
    if prop == 'C05':
        # degenerate / cycling LPs: "the simplex-based solvers always reach one of the three verdicts"
        specs += degenerate_family() + cycling_family() + tolerance_scale_family(t) + empty_domain_family()
        # 4..7-variable knapsack-like MILPs (branch-and-bound trees with more than a handful of nodes)
        import c15
        specs += c15.knapsacks(33 if t == 'quick' else 330 + sd, 150 if t == 'quick' else 1500) + c15.gap_family()
    if prop in ('C13', 'C05', 'C14'):
        specs += compiled_continuous_models(t)
    lim = os.environ.get('VERIF_LIMIT')
    if lim:
        specs = specs[::max(1, len(specs) // int(lim))]
    # fixed shuffle: models on which a third-party solver hangs cluster in the enumeration order
    import random
    random.Random(12345).shuffle(specs)
    return [{'idx': i, 'lm': s} for i, s in enumerate(specs)]


def compiled_continuous_models(t):
    """linear models the REAL linearizer produces from continuous source models (columns sorted by name,
    domain in declaration order, auxiliary variables, big-M rows): the consumers must cope with what the
    compiler actually emits, not only with hand-built models"""
    D = gen.D
    g = gen.RandGen(55)
    srcs = []
    n = 600 if t == 'quick' else 6000
    while len(srcs) < n:
        m = g.gen_model(maxd=2, maxk=3, maxr=2)
        kinds = {v[1]['k'] for v in m['vars']}
        if kinds <= {'Real', 'NNReal'}:
            # declaration order deliberately not alphabetical
            m['vars'] = list(reversed(m['vars']))
            srcs.append(m)
    outs = run_driver([{'cmd': 'compile', 'model': m, 'want': []} for m in srcs])
    specs = []
    for o in outs:
        L = (o.get('lin') or {}).get('ok')
        if not L or lin.nonfinite_entries(L) or not lin.lm_is_continuous(L) or len(L['vars']) > 6:
            continue
        specs.append({'vars': L['vars'], 'rows': [{'a': r['a'], 'c': r['c'], 'b': r['b']} for r in L['rows']], 'obj': L['obj'], 'dir': L['dir'], 'off': L['off'],
                      'domain_order': L['domain_keys']})
    return specs


def cycling_family():
    """the classical LPs on which the largest-coefficient rule with smallest-index ties cycles (Beale 1955,
    Chvatal 1983, Kuhn / Marshall-Suurballe), plain and 'shifted': an extra independent variable with the most
    attractive objective coefficient and x0 <= 1 (stated once or twice), so that the cycle is met only AFTER an
    improving pivot; two blocks side by side, so that a second degenerate vertex follows the escape from the first;
    column orders reversed / rotated (which pivot sequence cycles depends on the order)."""
    nn = gen.D('NNReal', 0, 'inf')
    blocks = {
        'chvatal': ([[0.5, -5.5, -2.5, 9], [0.5, -1.5, -0.5, 1], [1, 0, 0, 0]], [0, 0, 1], [10, -57, -9, -24], 'max'),
        'beale': ([[0.25, -60, -0.04, 9], [0.5, -90, -0.02, 3], [0, 0, 1, 0]], [0, 0, 1], [-0.75, 150, -0.02, 6], 'min'),
        'beale8': ([[0.25, -8, -1, 9], [0.5, -12, -0.5, 3], [0, 0, 1, 0]], [0, 0, 1], [-0.75, 20, -0.5, 6], 'min'),
        'kuhn': ([[-2, -9, 1, 9], [1 / 3, 1, -1 / 3, -2], [2, 3, -1, -12]], [0, 0, 2], [-2, -3, 1, 12], 'min'),
    }
    out = []

    def add(A, b, c, d):
        out.append(gen.lm_spec([nn] * len(c), [(list(r), '<=', bi) for r, bi in zip(A, b)], list(c), d))

    for name, (A, b, c, d) in blocks.items():
        n = len(c)
        add(A, b, c, d)
        perms = [list(reversed(range(n))), [(i + 1) % n for i in range(n)]]
        for pm in perms:
            add([[r[j] for j in pm] for r in A], b, [c[j] for j in pm], d)
        # shifted: improving pivot first
        big = 100 if d == 'max' else -100
        for twice in (False, True):
            for front in (True, False):
                A2 = [([0] + r if front else r + [0]) for r in A]
                row = ([1] + [0] * n) if front else ([0] * n + [1])
                A2 = A2 + [row] + ([row] if twice else [])
                b2 = b + [1] + ([1] if twice else [])
                c2 = ([big] + c) if front else (c + [big])
                add(A2, b2, c2, d)
    # two blocks side by side (block diagonal), same direction
    for n1, n2 in (('chvatal', 'chvatal'), ('beale8', 'beale'), ('beale', 'kuhn')):
        A1, b1, c1, d1 = blocks[n1]
        A2, b2, c2, d2 = blocks[n2]
        if d1 != d2:
            c2 = [-x for x in c2]
        k1, k2 = len(c1), len(c2)
        A = [r + [0] * k2 for r in A1] + [[0] * k1 + r for r in A2]
        add(A, b1 + b2, c1 + c2, d1)
    return out


def tolerance_scale_family(t):
    """coefficients below the 1e-5 comparison tolerance of the simplex next to right-hand sides large enough that the
    product is not negligible (0.000005 x + y = 1 with x <= 100000): an entry the tolerant tests take for zero still
    has to be eliminated / counted"""
    nn = gen.D('NNReal', 0, 'inf')
    out = []
    tiny = [5e-6, -5e-6, 2 ** -20, 8e-6] if t == 'quick' else [5e-6, -5e-6, 2 ** -20, 8e-6, -2 ** -18, 1e-7, 3e-6]
    for e in tiny:
        for big in (100000, 250000):
            for c in ('=', '<=', '>='):
                for d in ('max', 'min'):
                    out.append(gen.lm_spec([nn, nn], [([e, 1], c, 1), ([1, 0], '<=', big)], [1, 1] if d == 'max' else [-1, 1], d))
                    out.append(gen.lm_spec([nn, nn, nn], [([e, 1, 1], c, 2), ([1, 0, 0], '<=', big), ([0, 1, -1], '<=', 0.5)], [1, 2, 0], d))
                    out.append(gen.lm_spec([nn, nn], [([1, e], c, 1), ([0, 1], '<=', big), ([1, 1], '>=', 0.25)], [1, 1], d))
    return out


def empty_domain_family():
    """a variable whose declared range is empty (lo > hi) next to variables along which the objective is bounded or
    unbounded, with and without rows: the verdict is Infeasible whatever else the model looks like"""
    D = gen.D
    out = []
    empties = [D('Real', 2, 1), D('NNReal', 3, 1), D('Real', 0.5, -0.5)]
    others = [(D('NNReal', 0, 'inf'), D('Real', 0, 5)), (D('Real', '-inf', 'inf'), D('NNReal', 0, 4)), (D('Real', -2, 3), D('Real', 0, 5))]
    for e in empties:
        for (k1, k2) in others:
            for d in ('max', 'min'):
                for obj in ([1, 3, 1], [0, 1, 0], [1, -1, 0]):
                    for rows in ([], [([0, 1, 1], '<=', 4)], [([1, 1, 0], '>=', 1), ([0, 0, 1], '<=', 2)]):
                        out.append(gen.lm_spec([e, k1, k2], rows, obj, d))
    return out


def degenerate_family():
    """degenerate vertices, ratio ties, redundant rows (classic cycling examples scaled to the alphabet)"""
    nn = gen.D('NNReal', 0, 'inf')
    out = []
    # Beale-like / Kuhn-like degenerate LPs with 3 variables
    out.append(gen.lm_spec([nn] * 3, [([0.5, -1.5, -0.5], '<=', 0), ([0.5, -0.5, -0.5], '<=', 0), ([1, 0, 0], '<=', 1)], [-1, 2, -1], 'min'))
    out.append(gen.lm_spec([nn] * 3, [([1, 1, 0], '<=', 0), ([1, 0, 1], '<=', 0), ([0, 1, 1], '<=', 0)], [-1, -1, -1], 'min'))
    out.append(gen.lm_spec([nn] * 3, [([1, 1, 1], '=', 1), ([2, 2, 2], '=', 2), ([1, -1, 0], '=', 0)], [1, 1, 1], 'max'))
    out.append(gen.lm_spec([nn] * 2, [([1, 1], '<=', 1), ([1, 1], '<=', 1), ([1, 0], '<=', 1), ([0, 1], '<=', 1)], [-1, -1], 'min'))
    for a in (1, 2, 0.5):
        for b in (0, 1):
            out.append(gen.lm_spec([nn] * 3, [([a, 1, 0], '<=', b), ([a, 0, 1], '<=', b), ([1, 1, 1], '>=', 0)], [-1, -1, 0], 'min'))
            out.append(gen.lm_spec([nn] * 3, [([1, a, 0], '=', b), ([0, a, 1], '=', b), ([1, 0, -1], '=', 0)], [1, -1, 1], 'max'))
    return out


def main(prop):
    global PROP
    PROP = prop
    t, sd = tier(), seed()
    rep = Report(prop)
    build_s = common.build_driver()
    import kani_run
    kgroups = {'C13': ['stdk', 'util'], 'C14': ['tab'] if t == 'thorough' else [], 'C05': []}[prop]
    kbox = kani_run.start(kgroups, timeout_s=2400, mem_gb=20) if kgroups and not os.environ.get('VERIF_NO_KANI') else None
    items = family(prop, t, sd)
    t0 = time.time()
    parts = parallel(work, items, chunk=40)
    results, tw = [], [0, 0]
    stats = dict.fromkeys(zq.STATS, 0)
    for p in parts:
        results += p['results']
        tw[0] += p['twins'][0]
        tw[1] += p['twins'][1]
        for k in stats:
            stats[k] += p['stats'][k]
    by_status, nfail, confirmed, steps = {}, 0, 0, 0
    other_errors = {}
    todo = []
    for r in results:
        by_status[r['status']] = by_status.get(r['status'], 0) + 1
        steps += r.get('steps', 0)
        if r.get('cycling'):
            by_status['(raw Dantzig stepping cycles; method must escape)'] = by_status.get('(raw Dantzig stepping cycles; method must escape)', 0) + 1
        for e in r.get('other_errors', []):
            other_errors[str(e)] = other_errors.get(str(e), 0) + 1
        it = items[r['idx']]
        if r['status'] == 'fault':
            rep.broken.append(r.get('fault'))
        for u in r['unknown']:
            rep.inconclusive.append({'lm': it['lm'], 'obligation': u})
        for fail in r['fails']:
            todo.append((it['lm'], fail))
    replayed = parallel(replay_work, todo, chunk=4) if todo else []
    for (lm_, fail), (ok, detail) in zip(todo, replayed):
        it = {'lm': lm_}
        if True:
            nfail += 1
            # model-level facts a known finding can be keyed on: a row coefficient below the simplex's 1e-5 comparison
            # tolerance, and whether the tableau simplex is one of the parties of the failure
            subtol = any(0 < abs(float(x)) < 1e-5 for r in it['lm']['rows'] for x in r['a'])
            tableau_party = prop == 'C14' or fail.get('solver') == 'slow' or 'slow' in (str(fail.get('a')), str(fail.get('b'))) or "'slow'" in str(fail.get('a')) + str(fail.get('b'))
            sig = {'stage': prop, 'obligation': fail['ob'], 'solver': fail.get('solver'), 'kind': fail.get('kind'), 'engine': fail.get('engine'), 'has_free_variable': fail.get('has_free_variable'), 'msg': fail.get('msg'), 'objective_coefficient_below_1e-5': fail.get('objective_coefficient_below_1e-5'),
                   'row_coefficient_below_1e-5': subtol, 'tableau_simplex_involved': bool(tableau_party), 'lm': canon(it['lm'])}
            if not ok:
                rep.broken.append({'why': 'counterexample did not reproduce against the real code', 'sig': sig, 'detail': detail})
                continue
            confirmed += 1
            rep.violation(sig, {'property': prop, 'kind': 'linear-model', 'lm': it['lm'], 'obligation': fail['ob'], 'failure': fail,
                                'confirmation': detail, 'how_to_replay': './check %s --replay <this file>' % prop})
    if tw[0] > 0 and tw[1] == 0:
        rep.broken.append({'why': 'no must-fail twin detected: obligations look vacuous', 'twins': tw})
    if stats['queries'] and stats['unknown'] > 0.01 * stats['queries']:
        rep.broken.append({'why': 'more than 1% of the queries inconclusive', 'unknown': stats['unknown']})
    kani_summary = kani_run.join(kbox, rep, prop) if kbox else []
    obl = {
        'C13': ['shape: equalities, rhs >= 0 (exact)', 'preimage: LM(x) & forall y>=0 not(Ay=b & back(y)=x & objective relation) unsat', 'mapback: y>=0 & Ay=b & not(LM(back(y)) & objective relation) unsat'],
        'C05': ['Ok: returned point feasible (exact evaluation, 1e-6), reported value = objective, optimality for all points: LM(x) & obj better than value - tol unsat',
                'Infeasible: LM(x) unsat', 'Unbounded: LM sat and an improving recession direction exists', 'simplex-based solvers answer only Ok/Infeasible/Unbounded', 'all answering solvers agree'],
        'C14': ['starting tableau == standard form (two directions, box, tolerance)', 'each pivot preserves the solution set and the objective row (two directions)',
                'final: no feasible standard point is better than the reported value / unbounded report has a feasible point and an improving ray',
                'evaluated per tableau (not solver-decided): unit basis columns, b >= -1e-6, objective monotone, basis bookkeeping'],
    }[prop]
    evidence = {
        'level': 'translation_validation', 'tier': t, 'seed': sd,
        'coverage': {
            'programs': len(items), 'by_status': by_status, 'disagreements_checked': stats['queries'], 'queries': stats,
            'obligations_per_program': obl, 'counterexamples_found': nfail, 'counterexamples_confirmed_against_real_code': confirmed,
            'must_fail_twins': {'tried': tw[0], 'detected': tw[1]}, 'pivot_steps_checked': steps, 'other_error_kinds_seen': other_errors,
            'samples': [it['lm'] for it in items[:: max(1, len(items) // 5)][:5]],
            'exhaustive': False,
            'family': 'L(n,m): exhaustive n+m<=3 on a reduced alphabet (subsampled in the quick tier) + seeded n,m<=3; degenerate and classical cycling LPs (C14, C05); 4..7-variable knapsack MILPs (C05); linear models compiled by the real linearizer from continuous source models',
            'functions_encoded': {'C13': ['LinearModel::into_standard_form / to_standard_form / normalize_constraint / EqualityConstraint::new (real run, output encoded)'],
                                  'C05': ['solve_milp_lp_problem', 'auto_solver', 'solve_real_lp_problem_micro_lp', 'solve_real_lp_problem_clarabel', 'solve_real_lp_problem_slow_simplex'],
                                  'C14': ['StandardLinearModel::into_tableau (incl. two-phase start)', 'Tableau::step', 'Tableau::solve_step_by_step']}[prop],
            'solver': 'z3 %s (python API); timeout %d ms per query' % (z3.get_version_string(), QT),
            'driver_build_s': round(build_s, 1), 'check_s': round(time.time() - t0, 1),
            'kani': kani_summary,
        },
        'assumptions': ['z3 is the exact rational oracle', 'driver dumps are faithful (floats cross as shortest round-trip strings)'],
    }
    return rep.finish(evidence)


def replay_file(prop, path):
    global PROP
    PROP = prop
    common.build_driver()
    r = json.load(open(path))
    ok, detail = replay_fail(r['lm'], r['failure'])
    print(json.dumps({'reproduces': ok, 'detail': detail}, indent=1, default=str)[:4000])
    if ok:
        print('VIOLATION property=%s replay=%s' % (prop, path))
    return 1 if ok else 0


if __name__ == '__main__':
    sys.exit(main(sys.argv[1]))
