"""C17: the CPLEX-LP text exported by the real `LinearModel::to_lp_format`, read back by an
independent LP reader, must denote the same model: z3 decides equality of the two feasible
sets and of the two objective functions for ALL points.

The reader below follows the CPLEX LP file format as documented by IBM (sections, signs,
omitted unit coefficients, default bounds [0, +inf), `free`, `+/-infinity`, Binary, General).
Stated dialect choices: a bare numeric term on the left-hand side of a row or in the objective
is a constant; section keywords are matched case-insensitively at line starts; a line belongs
to the current section until the next keyword; names may contain letters, digits and
!"#$%&(),.;?@_'`{}~ but do not start with a digit or a period.
"""
import copy, json, os, re, sys, time
from fractions import Fraction
import z3
import common, sem, lin, gen, zq
from common import run_driver, parallel, Report, tier, seed, fs, canon

QT = 10000
NAME = r'[A-Za-z!"#$%&(),.;?@_\'`{}~][A-Za-z0-9!"#$%&(),.;?@_\'`{}~\[\]]*'
NUM = r'(?:\d+\.?\d*(?:[eE][+-]?\d+)?|\.\d+(?:[eE][+-]?\d+)?)'
SECTION = re.compile(r'^\s*(maximize|maximise|minimize|minimise|maximum|minimum|max|min|subject to|such that|st|s\.t\.|bounds|bound|binary|binaries|bin|general|generals|gen|integers|integer|end)\s*$', re.I)


class LpError(Exception):
    pass


def parse_expr(text):
    """-> (dict var->Fraction, constant Fraction); text like '- 2 x + y - 3.5'"""
    toks = re.findall(r'\s*(%s|%s|[+\-])' % (NUM, NAME), text)
    if ''.join(toks).replace(' ', '') != text.replace(' ', ''):
        raise LpError('cannot tokenize expression: %r' % text)
    coefs, const = {}, Fraction(0)
    sign, num = 1, None
    pending = False
    for t in toks:
        if t in '+-':
            if num is not None:
                const += sign * num
                num = None
                sign = 1
            sign = sign * (-1 if t == '-' else 1) if pending else (-1 if t == '-' else 1)
            pending = True
            continue
        if re.fullmatch(NUM, t):
            if num is not None:
                raise LpError('two numbers in a row: %r' % text)
            num = Fraction(float(t))   # an LP reader reads decimals into doubles
            continue
        c = sign * (num if num is not None else 1)
        coefs[t] = coefs.get(t, Fraction(0)) + c
        sign, num, pending = 1, None, False
    if num is not None:
        const += sign * num
    return coefs, const


def parse_bound_value(t):
    t = t.strip().lower()
    if t in ('+infinity', 'infinity', '+inf', 'inf'):
        return float('inf')
    if t in ('-infinity', '-inf'):
        return float('-inf')
    return Fraction(float(t))


def read_lp(text):
    sec = None
    obj_sense, obj_text, rows_text, bounds, binaries, generals = None, '', [], [], [], []
    ended = False
    for raw in text.split('\n'):
        line = raw.split('\\')[0].rstrip()
        if not line.strip():
            continue
        m = SECTION.match(line)
        if m:
            k = m.group(1).lower()
            if k.startswith('max'):
                sec, obj_sense = 'obj', 'max'
            elif k.startswith('min'):
                sec, obj_sense = 'obj', 'min'
            elif k in ('subject to', 'such that', 'st', 's.t.'):
                sec = 'rows'
            elif k.startswith('bound'):
                sec = 'bounds'
            elif k.startswith('bin'):
                sec = 'binary'
            elif k.startswith('gen') or k.startswith('integer'):
                sec = 'general'
            elif k == 'end':
                ended = True
                sec = 'end'
            continue
        if sec == 'obj':
            obj_text += ' ' + line
        elif sec == 'rows':
            rows_text.append(line)
        elif sec == 'bounds':
            bounds.append(line)
        elif sec == 'binary':
            binaries += line.split()
        elif sec == 'general':
            generals += line.split()
        else:
            raise LpError('text outside any section: %r' % line)
    if obj_sense is None or not ended:
        raise LpError('missing objective sense or End')
    # objective
    obj_name = None
    m = re.match(r'^\s*(%s)\s*:(.*)$' % NAME, obj_text)
    if m:
        obj_name, obj_text = m.group(1), m.group(2)
    ocoefs, oconst = parse_expr(obj_text.strip()) if obj_text.strip() else ({}, Fraction(0))
    # rows: a row may continue on following lines until one contains a relation; join greedily
    rows, cur = [], ''
    for l in rows_text:
        cur += ' ' + l
        if re.search(r'(<=|>=|=<|=>|=|<|>)', cur):
            rows.append(cur.strip())
            cur = ''
    if cur.strip():
        raise LpError('dangling row text: %r' % cur)
    prow = []
    for r in rows:
        name = None
        m = re.match(r'^\s*(%s)\s*:(.*)$' % NAME, r)
        if m:
            name, r = m.group(1), m.group(2)
        m = re.match(r'^(.*?)(<=|>=|=<|=>|=|<|>)(.*)$', r)
        if not m:
            raise LpError('no relation in row %r' % r)
        lhs, rel, rhs = m.group(1), m.group(2), m.group(3)
        rel = {'=<': '<=', '<': '<=', '=>': '>=', '>': '>='}.get(rel, rel)
        lc, lk = parse_expr(lhs.strip())
        rc, rk = parse_expr(rhs.strip())
        coefs = dict(lc)
        for v, c in rc.items():
            coefs[v] = coefs.get(v, Fraction(0)) - c
        prow.append({'name': name, 'coefs': coefs, 'rel': rel, 'rhs': rk - lk})
    # bounds
    lo, hi = {}, {}
    for b in bounds:
        b = b.strip()
        m = re.match(r'^(%s)\s+free$' % NAME, b, re.I)
        if m:
            lo[m.group(1)], hi[m.group(1)] = float('-inf'), float('inf')
            continue
        m = re.match(r'^(\S+)\s*<=\s*(%s)\s*<=\s*(\S+)$' % NAME, b)
        if m:
            lo[m.group(2)], hi[m.group(2)] = parse_bound_value(m.group(1)), parse_bound_value(m.group(3))
            continue
        m = re.match(r'^(%s)\s*(<=|>=|=)\s*(\S+)$' % NAME, b)
        if m:
            v, rel, val = m.group(1), m.group(2), parse_bound_value(m.group(3))
            if rel == '<=':
                hi[v] = val
            elif rel == '>=':
                lo[v] = val
            else:
                lo[v] = hi[v] = val
            continue
        m = re.match(r'^(\S+)\s*(<=|>=)\s*(%s)$' % NAME, b)
        if m:
            val, rel, v = parse_bound_value(m.group(1)), m.group(2), m.group(3)
            if rel == '<=':
                lo[v] = val
            else:
                hi[v] = val
            continue
        raise LpError('cannot read bound %r' % b)
    allv = set(ocoefs) | set(lo) | set(hi) | set(binaries) | set(generals)
    for r in prow:
        allv |= set(r['coefs'])
    return {'sense': obj_sense, 'obj': ocoefs, 'obj_const': oconst, 'rows': prow, 'lo': lo, 'hi': hi,
            'binary': binaries, 'general': generals, 'vars': sorted(allv)}


def lp_c(P, env):
    """z3 constraints of the model read from the LP text"""
    cs = []
    for r in P['rows']:
        lhs = z3.Sum([sem.Q(c) * env[v] for v, c in r['coefs'].items() if c != 0] + [z3.RealVal(0)])
        cs.append(sem.cmp_c(lhs, r['rel'], sem.Q(r['rhs'])))
    for v in P['vars']:
        x = env[v]
        if v in P['binary']:
            cs.append(z3.Or(x == 0, x == 1))
            continue
        l = P['lo'].get(v, Fraction(0))
        h = P['hi'].get(v, float('inf'))
        if v in P['general']:
            cs.append(z3.IsInt(x))
        if l == float('inf') or h == float('-inf'):
            cs.append(z3.BoolVal(False))
            continue
        if l != float('-inf'):
            cs.append(x >= sem.Q(l))
        if h != float('inf'):
            cs.append(x <= sem.Q(h))
    return z3.And(cs) if cs else z3.BoolVal(True)


def lp_obj(P, env):
    return z3.Sum([sem.Q(c) * env[v] for v, c in P['obj'].items() if c != 0] + [sem.Q(P['obj_const'])])


def judge(item, L, lp_text):
    res = {'idx': item['idx'], 'fails': [], 'q': 0, 'unknown': [], 'status': 'ok'}
    if lin.nonfinite_entries(L):
        res['status'] = 'skip-nonfinite'
        return res
    try:
        P = read_lp(lp_text)
    except LpError as e:
        res['fails'].append({'ob': 'lp-unreadable', 'why': str(e), 'point': None})
        return res
    names = lin.names(L)
    # a model name that is not a name of the LP format (x_-1: '-' is an operator there) has to be written as some
    # other, valid name; which one is the exporter's choice. It is identified without knowing the exporter's rule:
    # the LP variable that no model variable is called, with the same letters and digits in the same order.
    rename = {}
    unk = [v for v in P['vars'] if v not in names]
    for n in names:
        if re.fullmatch(NAME, n) or n in P['vars']:
            continue
        skel = re.sub(r'[^A-Za-z0-9]', '', n)
        cands = [v for v in unk if v not in rename and re.sub(r'[^A-Za-z0-9]', '', v) == skel]
        if len(cands) > 1:
            # several compiled names share a skeleton (x_-1 and x_1_ ...): prefer same length, then first
            cands.sort(key=lambda v: (abs(len(v) - len(n)), v))
        if cands:
            rename[cands[0]] = n
    if rename:
        res['renamed'] = len(rename)
        rn_ = lambda v: rename.get(v, v)
        P['vars'] = [rn_(v) for v in P['vars']]
        P['obj'] = {rn_(v): c for v, c in P['obj'].items()}
        for r in P['rows']:
            r['coefs'] = {rn_(v): c for v, c in r['coefs'].items()}
        for k in ('lo', 'hi'):
            P[k] = {rn_(v): c for v, c in P[k].items()}
        for k in ('binary', 'general'):
            P[k] = [rn_(v) for v in P[k]]
    extra = [v for v in P['vars'] if v not in names]
    if extra:
        res['fails'].append({'ob': 'lp-unknown-variable', 'vars': extra, 'point': None})
        return res
    env = {n: z3.Real('v%d' % i) for i, n in enumerate(names)}
    xs = {n: env[n] for n in names}
    # a variable that the LP text never mentions gets the LP default range [0, +inf)
    P['vars'] = list(names)
    A = lin.lin_c(L, env)
    B = lp_c(P, env)
    v, pt, _ = zq.query([z3.Xor(A, B)], timeout_ms=QT, want_vars=xs)
    res['q'] += 1
    if v == 'unknown':
        res['unknown'].append('denotation')
    if v == 'sat':
        res['fails'].append({'ob': 'feasible-sets-differ', 'point': zq.point_json(pt)})
    g = lin.lin_obj(L, env)
    if L['dir'] != 'solve' or True:
        v, pt, _ = zq.query([g != lp_obj(P, env)], timeout_ms=QT, want_vars=xs)
        res['q'] += 1
        if v == 'sat':
            res['fails'].append({'ob': 'objectives-differ', 'point': zq.point_json(pt)})
    want_sense = 'max' if L['dir'] == 'max' else 'min'
    if P['sense'] != want_sense:
        res['fails'].append({'ob': 'sense-differs', 'got': P['sense'], 'point': None})
    # markings
    wb = sorted(n for n, d in L['vars'] if d['k'] == 'Boolean')
    wg = sorted(n for n, d in L['vars'] if d['k'] == 'Int')
    if sorted(P['binary']) != wb or sorted(P['general']) != wg:
        res['fails'].append({'ob': 'integrality-markings-differ', 'binary': P['binary'], 'general': P['general'], 'point': None})
    # evaluated, not solver-decided: user names kept, generated names unique, row count
    rn = [r['name'] for r in P['rows']]
    if len(P['rows']) != len(L['rows']):
        res['fails'].append({'ob': 'row-count-differs', 'point': None})
    else:
        for r, lr in zip(P['rows'], L['rows']):
            if lr.get('name') and re.fullmatch(NAME, lr['name']) and r['name'] != lr['name']:
                res['fails'].append({'ob': 'user-row-name-lost', 'want': lr['name'], 'got': r['name'], 'point': None})
                break
    if len(P['rows']) == len(L['rows']):
        # only names the exporter generated are its responsibility (duplicate user names are the caller's)
        gen_names = [r['name'] for r, lr in zip(P['rows'], L['rows']) if not lr.get('name')]
        user_names = [lr['name'] for lr in L['rows'] if lr.get('name')]
        if len(set(gen_names)) != len(gen_names) or set(gen_names) & set(user_names) or any(n is None for n in gen_names):
            res['fails'].append({'ob': 'generated-row-names-not-unique', 'names': rn, 'point': None})
    return res


PROP = 'C17'


def work(chunk):
    zq.reset_stats()
    jobs = []
    for it in chunk:
        if 'lm' in it:
            jobs.append({'cmd': 'lm', 'lm': it['lm'], 'ops': ['lp']})
        else:
            jobs.append({'cmd': 'compile', 'model': it['model'], 'want': ['lp']})
    outs = run_driver(jobs)
    results, tw = [], [0, 0]
    for it, out in zip(chunk, outs):
        try:
            if 'lm' in it:
                L, text = out.get('lm'), out.get('lp')
            else:
                l = out.get('lin', {})
                L, text = l.get('ok'), l.get('lp')
            if L is None or not isinstance(text, str):
                results.append({'idx': it['idx'], 'fails': [], 'q': 0, 'unknown': [], 'status': 'not-compiled'})
                continue
            results.append(judge(it, L, text))
            if it['idx'] % 20 == 0:
                for mut in mutants(text):
                    r2 = judge(it, L, mut)
                    tw[0] += 1
                    tw[1] += 1 if r2['fails'] else 0
        except Exception:
            import traceback
            results.append({'idx': it['idx'], 'fails': [], 'q': 0, 'unknown': [], 'status': 'fault', 'fault': traceback.format_exc()[-800:]})
    return [{'results': results, 'twins': tw, 'stats': dict(zq.STATS)}]


def mutants(text):
    """must-fail twins: textual mutations of the real export that change its meaning"""
    out = []
    if '\nBounds\n' in text:
        out.append(re.sub(r'\nBounds\n(.*\n)*?(?=Binary|General|End)', '\n', text, count=1))
    if ' <= ' in text.split('Subject To')[1].split('Bounds')[0].split('End')[0]:
        head, tail = text.split('Subject To', 1)
        out.append(head + 'Subject To' + tail.replace(' <= ', ' >= ', 1))
    m = re.search(r'(obj: .*)\n', text)
    if m:
        out.append(text.replace(m.group(1), m.group(1) + ' + 1', 1))
    return out


def family(t, sd):
    specs = []
    # incl. coefficients a tolerant comparison would take for +-1 or 0 (the export drops a unit coefficient)
    big = [1e-9, 1e9, -1e-9, 123456.789, 0.1, 1 / 3, -2.5e-7, 1e15, 7e-5, 1 + 2 ** -20, 1 - 2 ** -20, -1 - 2 ** -20, -1 + 2 ** -18, 1 + 2 ** -34, 2 ** -20]
    if t == 'quick':
        specs += gen.l_exhaustive()[::9]
        specs += gen.l_seeded(51, 2500, named=True, offsets=True, satisfy=True, probe=('coef', 'rhs', 'obj', 'off'))
        specs += gen.l_seeded(52, 1500, named=True, offsets=True, coefs=[0, 1, -1, 2.5] + big, rhss=[0, 1, -1] + big)
    else:
        specs += gen.l_exhaustive(level=1)[::7]
        for k in range(4):
            specs += gen.l_seeded(500 * sd + k, 10000, named=True, offsets=True, satisfy=True, probe=('coef', 'rhs', 'obj', 'off'))
            specs += gen.l_seeded(600 * sd + k, 5000, named=True, offsets=True, coefs=[0, 1, -1, 2.5] + big, rhss=[0, 1, -1] + big)
    # odd domains: negative / infinite bounds, empty ranges, duplicate and '$'-style names
    D = gen.D
    odd = [D('Real', -5, -1), D('NNReal', 0, 0), D('Real', '-inf', -2), D('Real', 2, 'inf'), D('NNReal', 2.5, 'inf'), D('Int', -3, -3), D('Int', 0, 1), D('Real', 0, 'inf'), D('Real', 0, 5), D('NNReal', 0, 5)]
    for i, k in enumerate(odd):
        for j, k2 in enumerate(odd):
            s = gen.lm_spec([k, k2], [([1, -1], '<=', 1), ([0, 0], '>=', -1), ([2, 0.5], '=', 0)], [1, -2], 'max' if (i + j) % 2 else 'min', off=(i - j) / 2, names=['cap', '', 'cap'])
            s['vars'][0][0] = '$abs_0'
            s['vars'][1][0] = 'x_1'
            specs.append(s)
    items = [{'lm': s} for s in specs]
    # linear models produced by the real linearizer
    ms = gen.m1_family(0)[:: (9 if t == 'quick' else 2)] + gen.seeded_models(61 + sd, 1500 if t == 'quick' else 20000, maxd=3, names=True)
    # names a compilation produces from indexed variables (x_{i-1} at i = 0 is x_-1): '-' is an operator in the LP format
    styles = gen.NAME_STYLES + [{'x': 'x_-1', 'y': 'y_0_-2', 'z': 'z_-1_-1', 'p': 'p_-1_3', 'q': 'q_2_-1_-5'}]
    orig = ms
    ms = [dict(m, model=gen.rename_vars(m['model'], styles[i % 4])) if i % 4 else m for i, m in enumerate(ms)]
    # ... and the valid name such a rewrite would produce (x__1) declared in the same model, before or after it: the
    # exporter must keep the two apart whatever the declaration order
    coll = [{'x': 'x_-1', 'y': 'x__1', 'z': 'z_-1_-1', 'p': 'z__1__1'}, {'y': 'x_-1', 'x': 'x__1', 'p': 'z_-1_-1', 'z': 'z__1__1'}]
    ms += [dict(m, model=gen.rename_vars(m['model'], coll[j % 2])) for j, m in enumerate(orig[::5])]
    items += [{'model': m['model']} for m in ms]
    lim = os.environ.get('VERIF_LIMIT')
    if lim:
        items = items[::max(1, len(items) // int(lim))]
    for i, it in enumerate(items):
        it['idx'] = i
    return items


def replay_fail(it, fail):
    out = work([dict(it, idx=1)])[0]['results'][0]
    same = [f for f in out['fails'] if f['ob'] == fail['ob']]
    if not same:
        return False, {'why': 'not reproduced'}
    detail = {}
    f = same[0]
    if f.get('point'):
        # evaluate the witness exactly on both sides
        if 'lm' in it:
            o = run_driver([{'cmd': 'lm', 'lm': it['lm'], 'ops': ['lp']}])[0]
            L, text = o['lm'], o['lp']
        else:
            o = run_driver([{'cmd': 'compile', 'model': it['model'], 'want': ['lp']}])[0]
            L, text = o['lin']['ok'], o['lin']['lp']
        pt = zq.point_from_json(f['point'])
        names = lin.names(L)
        ptn = {n: pt[n] for n in names}
        P = read_lp(text)
        detail['lp_text'] = text
        detail['model_accepts_point'] = lin.py_lin_ok(L, ptn)
        detail['point'] = {k: str(v) for k, v in ptn.items()}
    return True, detail


def main(prop='C17'):
    t, sd = tier(), seed()
    rep = Report('C17')
    build_s = common.build_driver()
    items = family(t, sd)
    t0 = time.time()
    parts = parallel(work, items)
    results, tw = [], [0, 0]
    stats = dict.fromkeys(zq.STATS, 0)
    for p in parts:
        results += p['results']
        tw[0] += p['twins'][0]
        tw[1] += p['twins'][1]
        for k in stats:
            stats[k] += p['stats'][k]
    by_status, nfail, confirmed = {}, 0, 0
    for r in results:
        by_status[r['status']] = by_status.get(r['status'], 0) + 1
        it = items[r['idx']]
        if r['status'] == 'fault':
            rep.broken.append(r.get('fault'))
        for u in r['unknown']:
            rep.inconclusive.append({'item': it, 'obligation': u})
        for fail in r['fails']:
            nfail += 1
            ok, detail = replay_fail(it, fail)
            sig = {'stage': 'lp-export', 'obligation': fail['ob'], 'item': canon({k: v for k, v in it.items() if k != 'idx'})}
            if not ok:
                rep.broken.append({'why': 'did not reproduce', 'sig': sig})
                continue
            confirmed += 1
            rep.violation(sig, {'property': 'C17', 'item': {k: v for k, v in it.items() if k != 'idx'}, 'obligation': fail['ob'], 'failure': fail, 'confirmation': detail})
    if tw[0] > 0 and tw[1] == 0:
        rep.broken.append({'why': 'no must-fail twin detected', 'twins': tw})
    evidence = {
        'level': 'translation_validation', 'tier': t, 'seed': sd,
        'coverage': {
            'programs': len(items), 'by_status': by_status, 'disagreements_checked': stats['queries'], 'queries': stats,
            'obligations_per_program': ['LM(x) xor LM_lp(x) unsat', 'obj(x) != obj_lp(x) unsat (constant term included)', 'sense equal', 'Binary/General markings equal',
                                        'evaluated (not solver-decided): user row names kept, row names unique, row count'],
            'counterexamples_found': nfail, 'counterexamples_confirmed_against_real_code': confirmed,
            'must_fail_twins': {'tried': tw[0], 'detected': tw[1]},
            'samples': [{k: v for k, v in it.items() if k != 'idx'} for it in items[:: max(1, len(items) // 4)][:4]],
            'exhaustive': False,
            'family': 'L(n,m) incl. named rows, offsets, satisfy, coefficients 1e-9..1e15, odd domains, $-names + linear models compiled from the M family',
            'functions_encoded': ['LinearModel::to_lp_format (real run, text read back by an independent reader)'],
            'solver': 'z3 %s' % z3.get_version_string(), 'driver_build_s': round(build_s, 1), 'check_s': round(time.time() - t0, 1),
            'outside': ['LP-format dialect details other readers treat differently (see module doc-string)'],
        },
        'assumptions': ['the reader in lpcheck.py implements the CPLEX LP format as documented'],
    }
    return rep.finish(evidence)


def replay_file(prop, path):
    common.build_driver()
    r = json.load(open(path))
    ok, detail = replay_fail(r['item'], r['failure'])
    print(json.dumps({'reproduces': ok, 'detail': detail}, indent=1, default=str)[:3000])
    if ok:
        print('VIOLATION property=C17 replay=%s' % path)
    return 1 if ok else 0


if __name__ == '__main__':
    sys.exit(main())
