"""entry point: ./check <ID> [quick|thorough] | ./check <ID> --replay <file>"""
import os, sys
sys.path.insert(0, os.path.dirname(os.path.abspath(__file__)))

MODULES = {
    'C01': ('lincheck', 'C01'), 'C02': ('lincheck', 'C02'), 'C07': ('lincheck', 'C07'),
    'C13': ('lmcheck', 'C13'), 'C05': ('lmcheck', 'C05'), 'C14': ('lmcheck', 'C14'),
    'C17': ('lpcheck', 'C17'), 'C15': ('c15', 'C15'), 'C20': ('c20', 'C20'), 'C09': ('c09', 'C09'), 'C10': ('c10', 'C10'), 'C18': ('c18', 'C18'), 'C03': ('c03', 'C03'), 'C11': ('c11', 'C11'), 'C12': ('c12', 'C12'), 'C16': ('c16', 'C16'),
}


def main():
    if len(sys.argv) < 2 or sys.argv[1] not in MODULES:
        print('usage: ./check <%s> [quick|thorough]' % '|'.join(sorted(MODULES)))
        return 2
    pid = sys.argv[1]
    if len(sys.argv) > 2 and sys.argv[2] in ('quick', 'thorough'):
        os.environ['VERIF_TIER'] = sys.argv[2]
    mod, arg = MODULES[pid]
    m = __import__(mod)
    if len(sys.argv) > 3 and sys.argv[2] == '--replay':
        return m.replay_file(arg, sys.argv[3])
    # replays of an earlier run are not evidence of this one
    import shutil
    shutil.rmtree(os.path.join(os.path.dirname(os.path.dirname(os.path.abspath(__file__))), 'replays', pid), ignore_errors=True)
    try:
        return m.main(arg)
    except SystemExit:
        raise
    except BaseException as e:   # a crash of the machinery is never a verdict
        import traceback
        traceback.print_exc()
        print('INCONCLUSIVE property=%s machinery crashed: %r' % (pid, e))
        return 2


if __name__ == '__main__':
    sys.exit(main())
