"""Independent semantics of the ROOC expression language as z3 terms.

Written from the language documentation (docs / README) and the meaning the repository's
own test evaluator and builder `eval` give: arithmetic over the reals; `abs`; n-ary
`min`/`max`; logic operators read any non-zero operand as true and produce 0/1;
comparisons <=, >=, = between two values; a bare assertion holds iff its value is
non-zero.  Nothing here is derived from the linearizer.

Expression trees are tagged lists: ["num", "2.5"], ["var","x"], ["neg",e], ["abs",e],
["min",[...]], ["max",[...]], ["and",[...]], ["or",[...]], ["not",e], ["xor",a,b],
["implies",a,b], ["iff",a,b], ["+",a,b], ["-",a,b], ["*",a,b], ["/",a,b], and the
structural binary spellings ["band",a,b] ["bor",a,b] ["bxor",a,b] ["bimplies",a,b]
["biff",a,b], ["unot",e] that the parser may leave in a tree.
"""
from fractions import Fraction
import z3

INF = float('inf')


def Q(x):
    """exact rational constant from a float / Fraction / float-string"""
    if isinstance(x, str):
        x = float(x)
    fr = Fraction(x)
    return z3.RealVal(str(fr))


def numval(e):
    return float(e[1])


def src_const(x):
    """A constant of the SOURCE program means the decimal number the user wrote (1.8 is 18/10), not the
    double the compiler stores for it: whether 1.8*x >= 5.4 admits x = 3 is decided in the user's arithmetic;
    what the compiler's float arithmetic makes of it is the thing under test.  (Dyadic constants are the same
    in both readings.)"""
    if isinstance(x, str):
        t = x.strip()
        if t.lower() in ('inf', '+inf', '-inf', 'nan'):
            return Fraction(0)   # never a legal source constant of the families; callers guard non-finite values
        try:
            return Fraction(t)
        except (ValueError, ZeroDivisionError):
            return Fraction(float(t))
    return Fraction(repr(float(x))) if float(x) == float(x) and abs(float(x)) != INF else Fraction(0)


def truthy(t):
    return t != 0


def b2n(b):
    return z3.If(b, z3.RealVal(1), z3.RealVal(0))


LOGIC_TAGS = {'and', 'or', 'not', 'xor', 'implies', 'iff', 'band', 'bor', 'bxor', 'bimplies', 'biff', 'unot'}


def val(e, env):
    t = e[0]
    if t == 'num':
        return z3.RealVal(str(src_const(e[1])))
    if t == 'var':
        return env[e[1]]
    if t == 'neg':
        return -val(e[1], env)
    if t == 'abs':
        v = val(e[1], env)
        return z3.If(v >= 0, v, -v)
    if t in ('min', 'max'):
        vs = [val(x, env) for x in e[1]]
        r = vs[0]
        for v in vs[1:]:
            r = z3.If(v < r, v, r) if t == 'min' else z3.If(v > r, v, r)
        return r
    if t == 'avg':
        vs = [val(x, env) for x in e[1]]
        return z3.Sum(vs) / len(vs)
    if t == 'and':
        return b2n(z3.And([truthy(val(x, env)) for x in e[1]]))
    if t == 'or':
        return b2n(z3.Or([truthy(val(x, env)) for x in e[1]]))
    if t in ('not', 'unot'):
        return b2n(z3.Not(truthy(val(e[1], env))))
    a, b = val(e[1], env), val(e[2], env)
    if t in ('xor', 'bxor'):
        return b2n(z3.Xor(truthy(a), truthy(b)))
    if t in ('implies', 'bimplies'):
        return b2n(z3.Implies(truthy(a), truthy(b)))
    if t in ('iff', 'biff'):
        return b2n(truthy(a) == truthy(b))
    if t == 'band':
        return b2n(z3.And(truthy(a), truthy(b)))
    if t == 'bor':
        return b2n(z3.Or(truthy(a), truthy(b)))
    if t == '+':
        return a + b
    if t == '-':
        return a - b
    if t == '*':
        return a * b
    if t == '/':
        return a / b
    raise ValueError('tag ' + str(t))


def defined(e, env):
    """conjunction of 'denominator != 0' over the whole tree"""
    cs = []

    def walk(e):
        t = e[0]
        if t in ('num', 'var'):
            return
        if t in ('min', 'max', 'and', 'or', 'avg'):
            for x in e[1]:
                walk(x)
            return
        if t == '/':
            cs.append(val(e[2], env) != 0)
        for x in e[1:]:
            walk(x)

    walk(e)
    return z3.And(cs) if cs else z3.BoolVal(True)


def children(e):
    t = e[0]
    if t in ('num', 'var'):
        return []
    if t in ('min', 'max', 'and', 'or', 'avg'):
        return list(e[1])
    return list(e[1:])


def subexps(e, acc=None):
    if acc is None:
        acc = []
    acc.append(e)
    for c in children(e):
        subexps(c, acc)
    return acc


def variables(e, acc=None):
    if acc is None:
        acc = []
    if e[0] == 'var':
        if e[1] not in acc:
            acc.append(e[1])
    for c in children(e):
        variables(c, acc)
    return acc


def constants(e, acc=None):
    if acc is None:
        acc = []
    if e[0] == 'num':
        acc.append(float(e[1]))
    for c in children(e):
        constants(c, acc)
    return acc


def depth(e):
    cs = children(e)
    return 0 if not cs else 1 + max(depth(c) for c in cs)


def has_var_division(e):
    if e[0] == '/' and variables(e[2]):
        return True
    return any(has_var_division(c) for c in children(e))


# ------------------------------------------------------------------ python evaluation (exact rationals)
def pyval(e, env):
    """exact evaluation with Fractions; raises ZeroDivisionError on x/0"""
    t = e[0]
    if t == 'num':
        return src_const(e[1])
    if t == 'var':
        return Fraction(env[e[1]])
    if t == 'neg':
        return -pyval(e[1], env)
    if t == 'abs':
        return abs(pyval(e[1], env))
    if t == 'min':
        return min(pyval(x, env) for x in e[1])
    if t == 'max':
        return max(pyval(x, env) for x in e[1])
    if t == 'avg':
        return sum(pyval(x, env) for x in e[1]) / len(e[1])
    T = lambda x: pyval(x, env) != 0
    B = lambda b: Fraction(1 if b else 0)
    if t == 'and':
        return B(all([T(x) for x in e[1]]))
    if t == 'or':
        return B(any([T(x) for x in e[1]]))
    if t in ('not', 'unot'):
        return B(not T(e[1]))
    if t in ('xor', 'bxor'):
        return B(T(e[1]) != T(e[2]))
    if t in ('implies', 'bimplies'):
        return B((not T(e[1])) or T(e[2]))
    if t in ('iff', 'biff'):
        return B(T(e[1]) == T(e[2]))
    if t == 'band':
        a, b = T(e[1]), T(e[2])
        return B(a and b)
    if t == 'bor':
        a, b = T(e[1]), T(e[2])
        return B(a or b)
    a, b = pyval(e[1], env), pyval(e[2], env)
    if t == '+':
        return a + b
    if t == '-':
        return a - b
    if t == '*':
        return a * b
    if t == '/':
        return a / b
    raise ValueError(t)


# ------------------------------------------------------------------ domains and constraints
def dom_c(v, d, eps=None):
    """domain constraint of z3 variable v; eps (Fraction) relaxes continuous bounds only"""
    k = d['k']
    if k == 'Boolean':
        return z3.Or(v == 0, v == 1)
    if k == 'Int':
        return z3.And(z3.IsInt(v), v >= int(d['lo']), v <= int(d['hi']))
    lo, hi = float(d['lo']), float(d['hi'])
    if lo != lo or hi != hi:
        return z3.BoolVal(False)
    if lo == INF or hi == -INF:
        return z3.BoolVal(False)  # empty domain
    cs = []
    if lo != -INF:
        m = (eps * (1 + abs(Fraction(lo)))) if eps else 0
        cs.append(v >= Q(Fraction(lo) - m))
    if hi != INF:
        m = (eps * (1 + abs(Fraction(hi)))) if eps else 0
        cs.append(v <= Q(Fraction(hi) + m))
    if k == 'NNReal':
        cs.append(v >= (Q(-eps) if eps else 0))
    return z3.And(cs) if cs else z3.BoolVal(True)


def cmp_c(a, c, b, margin=None):
    """a c b, optionally relaxed by a non-negative rational margin"""
    if margin:
        m = Q(margin)
        if c == '<=':
            return a <= b + m
        if c == '>=':
            return a >= b - m
        if c == '=':
            return z3.And(a <= b + m, a >= b - m)
    if c == '<=':
        return a <= b
    if c == '>=':
        return a >= b
    if c == '=':
        return a == b
    if c == '<':
        return a < b
    if c == '>':
        return a > b
    raise ValueError(c)


def cons_scale(c):
    """1 + sum |constants| of a source constraint: the unit of its float-noise margin"""
    ks = []
    if 'assert' in c:
        return Fraction(1)
    constants(c['l'], ks)
    constants(c['r'], ks)
    return 1 + sum(abs(Fraction(k)) for k in ks if k == k and abs(k) != INF)


def con_c(c, env, eps=None):
    if 'assert' in c:
        return truthy(val(c['assert'], env))
    m = eps * cons_scale(c) if eps else None
    return cmp_c(val(c['l'], env), c['c'], val(c['r'], env), m)


def src_c(model, env, eps=None, with_domains=True):
    """the source model's meaning: declared domains and every constraint"""
    cs = []
    if with_domains:
        cs += [dom_c(env[n], d, eps) for n, d, *_ in model['vars']]
    for c in model['cons']:
        cs.append(con_c(c, env, eps))
    return z3.And(cs) if cs else z3.BoolVal(True)


def src_defined(model, env):
    ds = [defined(model['obj']['e'], env)]
    for c in model['cons']:
        if 'assert' in c:
            ds.append(defined(c['assert'], env))
        else:
            ds.append(defined(c['l'], env))
            ds.append(defined(c['r'], env))
    return z3.And(ds)


def mk_env(names):
    return {n: z3.Real(n) for n in names}


# ------------------------------------------------------------------ python-side truth of a source model at a point
def py_con(c, env, tol=Fraction(0)):
    if 'assert' in c:
        return pyval(c['assert'], env) != 0
    a, b = pyval(c['l'], env), pyval(c['r'], env)
    if c['c'] == '<=':
        return a <= b + tol
    if c['c'] == '>=':
        return a >= b - tol
    if c['c'] == '=':
        return abs(a - b) <= tol
    if c['c'] == '<':
        return a < b
    return a > b


def py_dom(x, d, tol=Fraction(0)):
    k = d['k']
    if k == 'Boolean':
        return x in (0, 1)
    if k == 'Int':
        return x.denominator == 1 and int(d['lo']) <= x <= int(d['hi'])
    lo, hi = float(d['lo']), float(d['hi'])
    if lo == INF or hi == -INF or lo != lo or hi != hi:
        return False
    if lo != -INF and x < Fraction(lo) - tol:
        return False
    if hi != INF and x > Fraction(hi) + tol:
        return False
    if k == 'NNReal' and x < -tol:
        return False
    return True


def py_src(model, env, tol=Fraction(0)):
    for n, d, *_ in model['vars']:
        if not py_dom(Fraction(env[n]), d, tol):
            return False
    return all(py_con(c, env, tol) for c in model['cons'])
