"""Independent printer: generator trees -> ROOC source text (family P).

The meaning of a printed text is the meaning of the tree it was printed from (sem.py), so a
consistent misreading by the parser (precedence, implicit multiplication, folding) shows up as
a disagreement with the oracle.  Several surface spellings are produced:
  'paren'   every binary node parenthesised
  'min'     only the parentheses the documented precedence table requires
  'alias'   symbolic operator spellings (&&, ||, !, ->, <->) with minimal parentheses
Numeric literals are kept out of logic positions (the type checker rejects `1 or 0`).
"""
from fractions import Fraction

PREC = {'implies': 0, 'iff': 0, 'or': 1, 'xor': 2, 'and': 3, '+': 4, '-': 4, '*': 5, '/': 5}
ALIAS = {'and': '&&', 'or': '||', 'implies': '->', 'iff': '<->', 'not': '!'}
UNARY = 6


def num_text(x):
    x = float(x)
    if x == float('inf'):
        return 'Infinity'
    if x == float('-inf'):
        return 'MinusInfinity'
    s = repr(abs(x))
    if 'e' in s:
        # the language has no exponent notation: the shortest decimal that reads back as x, written out in full
        from decimal import Decimal
        s = format(Decimal(s), 'f')
    if s.endswith('.0'):
        s = s[:-2]
    return ('-' + s) if (x < 0 or (x == 0 and str(x).startswith('-'))) else s


def op_text(op, style):
    return ALIAS.get(op, op) if style in ('alias', 'assoc') else op


def rend(e, style='paren', ctx=-1, side=None, pop=None):
    """ctx: precedence of the enclosing binary operator (-1 none); side: 'l'/'r' position under it; pop: that operator"""
    t = e[0]
    if t == 'num':
        s = num_text(e[1])
        return '(' + s + ')' if s.startswith('-') and ctx >= 0 else s
    if t == 'var':
        return e[1]
    if t == 'abs':
        return 'abs{ ' + rend(e[1], style) + ' }'
    if t in ('min', 'max', 'avg'):
        return t + '{ ' + ', '.join(rend(x, style) for x in e[1]) + ' }'
    if t in ('and', 'or') and len(e[1]) == 1:
        return rend(e[1][0], style, ctx, side)
    if t == 'neg' or t == 'not':
        inner = e[1]
        # the grammar allows one prefix operator per leaf: anything but a plain leaf gets parentheses
        it = rend(inner, style, UNARY, 'r')
        if inner[0] not in ('var', 'abs', 'min', 'max', 'avg') or it.startswith('-') or it.startswith('('):
            it = it if it.startswith('(') and it.endswith(')') and balanced(it) else '(' + it + ')'
        pre = '-' if t == 'neg' else (ALIAS['not'] if style in ('alias', 'assoc') else 'not ')
        s = pre + it
        return '(' + s + ')' if (style == 'paren' and ctx >= 0) or ctx > UNARY else s
    # binary / n-ary chains
    if t in ('and', 'or'):
        return rend_chain(e, style, ctx, side)
    op = t
    p = PREC[op]
    l = rend(e[1], style, p, 'l', op)
    r = rend(e[2], style, p, 'r', op)
    s = l + ' ' + op_text(op, style) + ' ' + r
    return wrap(s, op, p, ctx, side, style, pop)


def rend_chain(e, style, ctx, side):
    op = e[0]
    p = PREC[op]
    parts = []
    for i, x in enumerate(e[1]):
        parts.append(rend(x, style, p, 'l' if i == 0 else 'r'))
    s = (' ' + op_text(op, style) + ' ').join(parts)
    return wrap(s, op, p, ctx, side, style)


def wrap(s, op, p, ctx, side, style, pop=None):
    if ctx < 0:
        return s
    if style == 'assoc' and p == ctx and p == 0 and pop in ('implies', 'iff'):
        # the documented shared lowest level: implies groups to the right, iff to the left, each keeping its own
        # associativity - only the parentheses that reading requires
        if pop == 'implies':
            need = (side == 'l' and op == 'implies')
        else:
            need = (side == 'r') or (side == 'l' and op == 'implies')
        return '(' + s + ')' if need else s
    if style == 'paren':
        return '(' + s + ')'
    need = p < ctx
    if p == ctx:
        # same level: left-associative operators group to the left; implies groups to the right;
        # iff and implies share a level, each keeping its own associativity -> parenthesise mixed / wrong side
        need = True if side == 'r' else False
        if op == 'implies':
            need = True   # never rely on the shared lowest level
        if op == 'iff' and side == 'l':
            need = False
    if ctx == UNARY:
        need = True
    return '(' + s + ')' if need else s


def balanced(s):
    d = 0
    for i, c in enumerate(s):
        if c == '(':
            d += 1
        elif c == ')':
            d -= 1
            if d == 0 and i != len(s) - 1:
                return False
    return d == 0


def dom_text(n, d):
    k = d['k']
    if k == 'Boolean':
        return '%s as Boolean' % n
    if k == 'Int':
        return '%s as IntegerRange(%d, %d)' % (n, int(d['lo']), int(d['hi']))
    lo, hi = float(d['lo']), float(d['hi'])
    name = 'Real' if k == 'Real' else 'NonNegativeReal'
    if k == 'Real' and lo == float('-inf') and hi == float('inf'):
        return '%s as Real' % n
    if k == 'NNReal' and lo == 0 and hi == float('inf'):
        return '%s as NonNegativeReal' % n
    return '%s as %s(%s, %s)' % (n, name, num_text(lo), num_text(hi))


def con_text(c, style):
    body = rend(c['assert'], style) if 'assert' in c else rend(c['l'], style) + ' ' + c['c'] + ' ' + rend(c['r'], style)
    if c.get('name'):
        return c['name'] + ': ' + body
    return body


def model_text(m, style='paren', consts=None):
    """consts: optional dict name -> number rendered in a where-section (the tree then uses ['var', name])"""
    lines = []
    if m['obj']['dir'] == 'solve':
        lines.append('solve')
    else:
        lines.append(m['obj']['dir'] + ' ' + rend(m['obj']['e'], style))
    lines.append('s.t.')
    for c in m['cons']:
        lines.append('    ' + con_text(c, style))
    if consts:
        lines.append('where')
        for k, v in consts.items():
            lines.append('    let %s = %s' % (k, num_text(v)))
    if m['vars']:
        lines.append('define')
        for v in m['vars']:
            lines.append('    ' + dom_text(v[0], v[1]))
    return '\n'.join(lines)


def lift_constants(m):
    """replace the first non-trivial numeric literal outside logic positions by a named constant;
    returns (model', consts) or (m, None)"""
    import copy
    m2 = copy.deepcopy(m)
    found = {}

    def walk(e, in_logic):
        if found:
            return e
        t = e[0]
        if t == 'num':
            v = float(e[1])
            if not in_logic and v not in (0.0, 1.0) and v == v and abs(v) != float('inf'):
                found['kc'] = v
                return ['var', 'kc']
            return e
        if t == 'var':
            return e
        logic = t in ('and', 'or', 'not', 'xor', 'implies', 'iff')
        if t in ('min', 'max', 'and', 'or', 'avg'):
            return [t, [walk(x, logic) for x in e[1]]]
        return [t] + [walk(x, logic) for x in e[1:]]

    for c in m2['cons']:
        if 'assert' in c:
            continue
        c['l'] = walk(c['l'], False)
        c['r'] = walk(c['r'], False)
    if not found:
        m2['obj']['e'] = walk(m2['obj']['e'], False)
    return (m2, found) if found else (m, None)
