"""Thin z3 query layer: one verdict per closed formula, timing, nice-point refinement,
SMT-LIB export for the cross-check with other solvers."""
import time
from fractions import Fraction
import z3

STATS = {'queries': 0, 'unsat': 0, 'sat': 0, 'unknown': 0, 'solver_s': 0.0, 'xcheck': 0, 'xcheck_disagree': 0, 'xcheck_other_unknown': 0}
XDISAGREE = []


def reset_stats():
    for k in STATS:
        STATS[k] = 0 if k != 'solver_s' else 0.0
    del XDISAGREE[:]


def xcheck_rate():
    import os
    if os.environ.get('VERIF_XCHECK'):
        return int(os.environ['VERIF_XCHECK'])
    return 20 if os.environ.get('VERIF_TIER') == 'thorough' else 100   # one query in N


def maybe_cross_check(s, verdict):
    """re-run a deterministic sample of the queries on z3 4.8.12 and (quantifier-free ones) on cvc5"""
    import hashlib, subprocess, tempfile, os
    n = xcheck_rate()
    if n <= 0:
        return
    smt2 = s.to_smt2()
    if int(hashlib.md5(smt2.encode()).hexdigest()[:8], 16) % n:
        return
    STATS['xcheck'] += 1
    text = '(set-logic ALL)\n' + smt2
    fd, path = tempfile.mkstemp(suffix='.smt2')
    os.write(fd, text.encode())
    os.close(fd)
    try:
        solvers = [('z3-4.8.12', ['/usr/bin/z3', '-T:20', path])]
        if 'forall' not in smt2 and 'exists' not in smt2:
            solvers.append(('cvc5', ['cvc5', '--lang', 'smt2', '--tlimit=20000', path]))
        for name, cmd in solvers:
            try:
                p = subprocess.run(cmd, capture_output=True, text=True, timeout=30)
                out = p.stdout + p.stderr
                first = [l.strip() for l in p.stdout.split('\n') if l.strip()]
                v = 'error' if '(error' in out else (first[0] if first else 'none')
            except subprocess.TimeoutExpired:
                v = 'timeout'
            if v in ('sat', 'unsat'):
                if v != verdict:
                    STATS['xcheck_disagree'] += 1
                    XDISAGREE.append({'solver': name, 'theirs': v, 'ours': verdict, 'smt2': text[:4000]})
                    d = os.path.join(os.path.dirname(os.path.dirname(os.path.abspath(__file__))), '.work', 'xdisagree')
                    os.makedirs(d, exist_ok=True)
                    open(os.path.join(d, '%s-%s.smt2' % (name, hashlib.md5(text.encode()).hexdigest()[:10])), 'w').write('; ours=%s theirs=%s\n' % (verdict, v) + text)
            else:
                STATS['xcheck_other_unknown'] += 1
    finally:
        os.unlink(path)


def to_frac(v):
    if v is None:
        return None
    if z3.is_rational_value(v):
        return Fraction(v.numerator_as_long(), v.denominator_as_long())
    if z3.is_int_value(v):
        return Fraction(v.as_long())
    if z3.is_algebraic_value(v):
        a = v.approx(30)
        return Fraction(a.numerator_as_long(), a.denominator_as_long())
    raise ValueError('not a number: %s' % v)


def query(formulas, timeout_ms=10000, want_vars=None, nice=True, keep_smt2=False):
    """returns (verdict, point, smt2) ; point maps name -> Fraction for want_vars (dict name->z3 var)"""
    s = z3.Solver()
    s.set('timeout', timeout_ms)
    for f in formulas:
        s.add(f)
    smt2 = s.to_smt2() if keep_smt2 else None
    t = time.time()
    r = s.check()
    if r not in (z3.unsat, z3.sat) and timeout_ms < 60000:
        # undecided within the budget: one more attempt with six times the budget before it counts as inconclusive
        s.set('timeout', timeout_ms * 6)
        r = s.check()
    STATS['solver_s'] += time.time() - t
    STATS['queries'] += 1
    if r in (z3.unsat, z3.sat):
        maybe_cross_check(s, 'unsat' if r == z3.unsat else 'sat')
    if r == z3.unsat:
        STATS['unsat'] += 1
        return 'unsat', None, smt2
    if r != z3.sat:
        STATS['unknown'] += 1
        return 'unknown', None, smt2
    STATS['sat'] += 1
    point = None
    if want_vars is not None:
        m = s.model()
        if nice and want_vars:
            # prefer a point on the 1/8 grid: exact in f64, so the replay is exact
            try:
                s.push()
                for v in want_vars.values():
                    s.add(z3.IsInt(v * 8))
                s.set('timeout', min(timeout_ms, 3000))
                t = time.time()
                r2 = s.check()
                STATS['solver_s'] += time.time() - t
                if r2 == z3.sat:
                    m = s.model()
                s.pop()
            except z3.Z3Exception:
                pass   # the refinement is a convenience; the first model stands
        point = {}
        for n, v in want_vars.items():
            val = m.eval(v, model_completion=True)
            point[n] = to_frac(val)
    return 'sat', point, smt2


def point_json(point):
    return {n: str(v) for n, v in point.items()}


def point_from_json(p):
    return {n: Fraction(v) for n, v in p.items()}


def exact_float(fr):
    """Fraction -> float if exactly representable else None"""
    try:
        x = float(fr)
    except OverflowError:
        return None
    return x if Fraction(x) == fr else None
