#!/usr/bin/env python3
"""prints a markdown table of what the last run of every check covered (from /verif/evidence/*.json)"""
import json, glob, os
rows = []
for f in sorted(glob.glob(os.path.join(os.path.dirname(os.path.dirname(os.path.abspath(__file__))), 'evidence', '*.json'))):
    e = json.load(open(f)); c = e['coverage']
    q = c.get('queries') or {}
    kani = c.get('kani') or []
    k = ', '.join('%s:%s' % (g['group'], g['status']) for g in kani) if kani else ('arith: %d/%d' % (c.get('discharged', 0), c.get('obligations', 0)) if e['property_id'] == 'C18' else '-')
    rows.append('| %s | %s | %s | %s | %s | %s | %s | %s |' % (e['property_id'], e['tier'], c.get('programs', c.get('obligations', '')), q.get('queries', ''), q.get('unknown', ''),
                                                        q.get('xcheck', ''), k, e['wall_s']))
print('| property | tier | programs | z3 queries | unknown | cross-checked | Kani groups | wall s |')
print('|---|---|---|---|---|---|---|---|')
print('\n'.join(rows))
