#!/usr/bin/env python3
"""Regenerates /verif/MANIFEST.json from the table below (kept in one place so it stays valid)."""
import json, os
V = os.path.dirname(os.path.dirname(os.path.abspath(__file__)))

TV = 'translation_validation'
CHECKS = {
 'C01': dict(cat=TV, tech='SMT translation validation (z3, LRA/LIA with one quantifier alternation) of the real Linearizer output per program',
   text='For every member of a stated program family (exhaustive E1+ shape + seeded models) the real Linearizer::linearize is run and z3 decides, for ALL real/integer assignments, soundness (Lin(x,a) => Src(x)) and completeness (Src(x) => exists a. Lin(x,a)) between the independent source semantics and the emitted rows/domains. Bounded on the program axis only; counterexamples are replayed against the real code (calc_constraints, real MILP on the pinned model) before being reported.',
   note='Trusted: sem.py as the language semantics, z3, the driver dump (re-validated each run against real calc_constraints). Float-noise margin eps=1e-7 relative in favour of the code. Outside: strict comparisons, programs beyond the family, rejected models.',
   ref='DESIGN §3 C01, §2'),
 'C02': dict(cat=TV, tech='SMT translation validation (z3) of objective preservation over all auxiliary extensions',
   text='Same artefacts as C01; z3 decides for all source-feasible assignments that no auxiliary extension has a better linear objective than the source objective and that the source value is attained by some extension (exists/forall query).',
   note='Same trusted base as C01; Satisfy objectives skipped; the "consequently" clause follows from C01+C02 obligations and is cross-checked with z3 Optimize in the thorough tier.',
   ref='DESIGN §3 C02'),
 'C07': dict(cat=TV, tech='SMT validation (z3) of every published / derived / sub-expression range against the source semantics, plus Kani proofs of the interval kernels',
   text='For every family member z3 decides that no source-feasible assignment leaves a published variable range or a range derived by BoundsAnalyzer (default and max_steps 0..3), and that no point of the derived box takes a sub-expression outside the range bounds_of reports. Includes non-dyadic constants (1.9, 1/3, 0.1) for float-noise rounding of integer bounds.',
   note='Ranges are read through the verif-hooks accessors. Margin eps=1e-7 relative on continuous bounds, none on integer bounds. Outside: propagation chains longer than the family has.',
   ref='DESIGN §3 C07'),
 'C05': dict(cat=TV, tech='real solver entry points run on an enumerated family of small LP/MILP models; z3 (exact rational LRA/LIA) decides optimality for all points, infeasibility, and existence of an improving recession direction',
   text='For every L(n,m) model and every built-in entry point that accepts it, z3 is the exact oracle: a returned optimum is optimal over ALL feasible points (unsat query), an infeasible verdict means the model is unsatisfiable, an unbounded verdict needs a feasible point and an improving ray; simplex-based solvers must answer with Ok/Infeasible/Unbounded only (a solver that does not return within 5 s is reported as a hang).',
   note='The solver run itself is concrete (third-party numerical code cannot be executed symbolically); the quantified part is the oracle query. Tolerance 1e-6 relative (1e-4 for Clarabel). Families: L(n,m), degenerate and classical cycling LPs, knapsack and large-objective MILPs, sub-tolerance coefficients next to large values, empty declared ranges, models compiled by the real linearizer. The microlp / Clarabel findings of earlier rounds were repaired in /repo; open: the tableau simplex compares ratios with an absolute 1e-5 tolerance (known_findings.txt, keyed on the obligation and on a sub-tolerance row coefficient).',
   ref='DESIGN §3 C05'),
 'C13': dict(cat=TV, tech='SMT translation validation (z3, exists/forall LRA) of the real standard-form conversion + Kani proofs of the row-normalisation kernels',
   text='For every continuous L(n,m) model the real into_standard_form output is read through the verif-hooks accessor; z3 decides that every original feasible point has a standard-form preimage with the related objective value and that every standard-form point (y>=0, Ay=b) maps back to an original feasible point, for ALL points; rhs>=0 and equality shape are checked exactly.',
   note='Objective relation as used by OptimalTableau::optimal_value (original = -/+ standard + offset). Family includes tolerance-probe right-hand sides (+-2^-20, +-2^-10).',
   ref='DESIGN §3 C13'),
 'C14': dict(cat=TV, tech='SMT validation (z3 LRA) of every real simplex tableau along real pivot traces + (thorough) Kani proof of one Tableau::step from an arbitrary canonical 2x3 tableau',
   text='For every standard-form problem from the L family the driver records the real trace of Tableau::step; z3 decides per step, in both directions and for all points of a box, that the equation system and objective row are preserved, that the starting tableau (incl. two-phase start) describes the standard form, and that the final tableau is optimal over all feasible points (or the unbounded report has a feasible point and an improving ray). Unit basis columns, b>=0 and monotone objective are evaluated on each concrete tableau.',
   note='Tolerance-aware (1e-6 relative inside |y|<=10) because traces contain rounded floats. The symbolic-tableau inductive step (Kani) is in the thorough tier only (about 13 min / 10 GB).',
   ref='DESIGN §3 C14'),
 'C15': dict(cat=TV, tech='real MILP entry points run under every (time limit, gap) setting; z3 (exact LIA/LRA) decides the implications a correct outcome must satisfy for all points',
   text='For every MILP family member x time limit {0,1ns,1us,1ms,none} x gap {none,0,1e-6,0.5,1,10,-0.0; invalid: -1,NaN,inf,-inf,-1e-9} the real solve_milp_lp_problem_with and the builder Microlp wrapper are run; z3 decides that a solution labelled Optimal has no feasible point better by more than the gap, that Infeasible/Unbounded verdicts are true, and exact evaluation shows every returned point feasible; invalid gaps must be rejected. Because the obligations are implications over outcomes, the instant the limit fires cannot cause a false alarm.',
   note='The run is concrete (wall-clock limits, third-party search); limits of 0 ns make the interrupted branch deterministic. Timing-dependent counterexamples that do not reproduce in 3 replays are counted, not reported.',
   ref='DESIGN §3 C15'),
 'C17': dict(cat=TV, tech='SMT denotation equality (z3) between the real LinearModel and its CPLEX-LP export read back by an independent reader',
   text='For every family member the real to_lp_format() text is parsed by an independent CPLEX-LP reader and z3 decides, for ALL points, that the two feasible sets are equal (xor unsat) and the two objective functions are equal; sense and Binary/General markings are compared; generated row names unique and user names kept are evaluated.',
   note='Decimal literals are read into doubles as any LP reader does. Dialect choices of the reader are listed in smt/lpcheck.py.',
   ref='DESIGN §3 C17'),
 'C20': dict(cat=TV, tech='exact parametric sensitivity decided by z3 (Optimize + a quantified query over a symbolic right-hand-side perturbation) compared with the dual values the real Clarabel entry point reports',
   text='For every continuous family member with named rows whose optimum z3 proves unique, and every named row, z3 decides for a SYMBOLIC delta in [-d0,d0] that the optimum of the perturbed model is opt + p*delta (lower bound for all points, attainment by an exists/forall query); the reported shadow price must equal the exact slope p in the user sense, for min and max and <=, >=, = rows; inactive rows 0, unnamed rows none.',
   note='Degenerate / non-unique optima are filtered by the solver and counted. Tolerance 1e-4 relative (interior-point duals).',
   ref='DESIGN §3 C20'),
 'C09': dict(cat=TV, tech='real parser run on an enumerated family of token sequences; z3 decides equality of the parsed tree and an independent precedence-climbing reference tree for all real assignments',
   text='For every operator sequence of the family (all sequences with <=2 binary operators x unary prefixes, a sample of longer ones, parenthesised sub-sequences for every operator pair, implicit products, keyword-prefixed identifiers, keyword and symbolic spellings) the real parse_and_transform output is compared with the documented precedence-climbing tree: value inequality (or different definedness) must be unsat over all assignments; a well-formed text must be accepted.',
   note='The parse is a concrete run (pest cannot be executed symbolically); the for-all-assignments statement is the solver verdict. Trusted: the precedence table written in smt/c09.py from the documentation.',
   ref='DESIGN §3 C09'),
 'C10': dict(cat=TV, tech='real Exp::simplify / Exp::flatten run on an exhaustive family of small trees, value and definedness preservation decided by z3 (NRA) for all assignments; constant re-spellings compared through the real compiler with exists/forall projection equivalence',
   text='(a) 70k trees (every tree of depth <=1 over {x,y,0,1,2,-0.0,0.5}, every operator above a depth-1 tree): z3 decides that wherever the original is defined each rewrite (simplify, flatten, flatten.simplify and their second applications) is defined with the same value, and that an undefined point stays undefined. (b) 8 spellings of a coefficient in models where bound inference matters: all accepted or all rejected, and pairwise projection equivalence of the compiled linear models including best objective over auxiliary extensions.',
   note='Typing precondition (stated in smt/c10.py): a non-constant operand of a logic operator is Boolean-valued, as the type checker and linearizer enforce; numeric constants in logic positions are unrestricted. Constant folding is compared with a 1e-9 relative margin (f64). simplify(simplify(e)) == simplify(e) is additionally compared structurally (an evaluation, reported as such).',
   ref='DESIGN §3 C10'),
 'C03': dict(cat=TV, tech='real end-to-end run (parse, type-check, transform, linearize, default solver) on texts printed from generator trees; z3 decides on the generator tree that no satisfying assignment is better / that none exists',
   text='For every text of family P over bounded domains the real RoocSolver::try_new(text).solve_using(auto_solver) is run; judged on the generator\'s own tree by z3: a returned point satisfies the source and no satisfying assignment has a better objective (unsat query over all assignments); an infeasible verdict means Src is unsatisfiable; a compile error, unbounded verdict, panic or hang on a bounded model is a violation.',
   note='Programs cannot be made symbolic through pest; the quantified parts (no better assignment, no satisfying assignment) are the solver verdicts. The property text mentions enumeration of the declared domains; here z3 decides the same statement for all real values of continuous variables. Printer textgen.py + sem.py are the trusted meaning of the text.',
   ref='DESIGN §3 C03'),
 'C11': dict(cat=TV, tech='real formatter + parser run on an enumerated family of texts; z3 decides for all assignments that the model re-parsed from the formatted text means the same as the original, and exists/forall projection equivalence of the two compiled linear models',
   text='For every text (all (parent, child, side) operator triples printed with minimal parentheses, unary over negative constants, implicit products, P texts in 3 spellings, hand-written surface variety) the real format() output must be accepted and z3 decides objective-value equality and per-constraint truth-value equality for all assignments plus equivalence of the compiled linear models; format(format(t)) == format(t) is evaluated.',
   note='Meaning part only is solver-decided; idempotence is a string comparison. The hand-written part of the family covers every binder shape of iteration scopes, every declaration form, where-block values of every literal kind, weighted graph literals, strict comparisons; 140 programs from the repository tests and docs are included. Outside: other data-driven shapes.',
   ref='DESIGN §3 C11'),
 'C12': dict(cat=TV, tech='real Model / LinearModel renderings re-compiled by the real parser, type checker and linearizer; z3 decides (exists/forall LRA+LIA) projection equivalence of original and re-compiled linear model for all assignments',
   text='For every compiled Model and LinearModel of the family (M1, seeded M(3) with names, seeded L(3,3) with coefficients 1e-9..1e9, offsets, satisfy) the real to_string() text must parse, type-check and compile, and the re-compiled linear model must have the same projection on the original variables and the same best objective, decided by z3 for all assignments.',
   note='Meaning part only; row-for-row identity and the render-compile-render fixpoint are not claimed (no value quantifier). Family restricted to well-typed models (no numeric literal in a logic position). Families also contain compiled index names (x_-1, z_-1_-1), strict rows, single-operand blocks, diverging and ill-conditioned rows (the former finding on float cancellation in bound propagation was repaired in /repo).',
   ref='DESIGN §3 C12'),
 'C16': dict(cat=TV, tech='the same generator tree pushed through every real front door; pairwise projection equivalence of the compiled linear models decided by z3 (exists/forall), shared verdict/optimum judged against the source by z3 oracle queries',
   text='For every family member the model is built through the fluent builder (operator overloads, helper functions, three call orders), as source text through RoocParser+Linearizer, through PipeRunner and through RoocSolver; z3 decides for all assignments that all compiled linear models have the same projection on the declared variables and best objective; all doors must accept or all reject, and agree on verdict and optimum, which is additionally judged against the source semantics (no better assignment / no satisfying assignment).',
   note='Equivalence part is solver-decided; row-for-row identity, call-order identity and the read-back clauses (var_value, numeric_value, eval, unused variables inside their domain) are evaluations at one point, reported separately in the evidence. The builder macros (vars!, constraint!, expr!) are covered by two macro-written models over a grid of numbers; numeric constants supplied through the API of parse_and_transform / PipeContext / RoocSolver are covered by the API-constants door; other macro-written shapes and non-numeric API data are outside.',
   ref='DESIGN §3 C16'),
 'C18': dict(cat='other', engine='K', tech='bounded model checking (Kani 0.68 / CBMC 6.11, SAT) of the real arithmetic, value-conversion and span kernels with fully symbolic 64-bit / 32-bit operands, one proof harness per (receiver type, operator, operand kind), per conversion and for InputSpan::span_text',
   text='Partial claim, kernel level only: for ALL 64-bit operands and every operator / operand-kind combination the real <i64/u64/f64/bool as ApplyOp> implementations return Ok or Err and never panic or trap on overflow (dev profile); integer results equal the mathematical result computed in i128 or the call returns an error; division by zero is an error. These are the value-level totality cases the property rationale names (negation at the type minimum, mixed signed/unsigned arithmetic, int/float casts, division by zero). Also: Primitive::as_integer_cast / as_usize_cast return the mathematical value or an error for every payload (no wrap, no saturation), and InputSpan::span_text returns Ok exactly for spans inside the text on character boundaries for all (start, len) in u32 x u32 (text with 1-, 2-, 3-byte characters; alloc::fmt::format stubbed); IterableKind::read returns Err for every two-index path into a nested array whose outer level is empty and Ok exactly for in-range single indexes into a flat array.',
   note='NOT claimed: pest, formatter, error rendering beyond span_text, indexing of nested constant arrays beyond the two idx harnesses (IterableKind::read with a non-empty outer level: no Kani verdict in 900 s), allocation of user-sized ranges, termination of the pipeline on arbitrary strings - that code cannot be executed symbolically in this sandbox (DESIGN §0). Multiplication harnesses keep one factor fully symbolic and draw the other from a 10-value boundary set. CBMC NaN checks are off (the kernels handle NaN), Rust overflow panics stay on.',
   ref='DESIGN §3 C18, §9.2'),
}
NA = {
 'C04': 'no value quantifier: every clause evaluates one returned point; the solver bridges (microlp, Clarabel, IndexMap) cannot be executed symbolically (DESIGN §3 C04); its premises are still evaluated inside C03/C05/C15',
 'C06': 'purely syntactic identity between two compiler outputs; nothing ranges over values and pest/Primitive interpreter cannot be encoded (DESIGN §3 C06)',
 'C08': 'structural facts about one output (sorted names, unique row names, error kind); no value quantifier for a solver (DESIGN §3 C08)',
 'C19': 'quantifies over programs only; classification of error kinds of a tree-walking checker over IndexMap scopes, not encodable (DESIGN §3 C19)',
}
PENDING = ['C03','C05','C09','C10','C11','C12','C13','C14','C15','C16','C17','C18','C20']

def main():
    checks = []
    for pid, c in sorted(CHECKS.items()):
        checks.append({
            'property_id': pid,
            'quick_cmd': './check %s quick' % pid,
            'thorough_cmd': './check %s thorough' % pid,
            'evidence_file': '/verif/evidence/%s.json' % pid,
            'replay_cmd_template': './check %s --replay {path}' % pid,
            'engine': c.get('engine', 'S'),
            'level_claimed': {'category': c['cat'], 'text': c['text'], 'design_ref': c['ref']},
            'level_note': c['note'],
            'technique': c['tech'],
        })
    na = [{'property_id': k, 'reason': v} for k, v in sorted(NA.items())]
    for p in PENDING:
        if p not in CHECKS:
            na.append({'property_id': p, 'reason': 'check not built yet in this revision (planned, see DESIGN §3 %s); not claimed until it runs' % p})
    m = {
        'version': 1,
        'setup_cmd': './setup.sh',
        'hooks': {
            'guard': 'cargo feature verif-hooks (packages/rooc/Cargo.toml); Kani include points additionally need cfg(kani)',
            'enable': 'the driver depends on rooc with features=["verif-hooks"]; Kani runs use cargo kani --features verif-hooks with ROOC_VERIF_KANI_DIR=/verif/kani',
            'baseline_off_cmd': 'cd /repo/packages/rooc && cargo test --workspace --no-fail-fast --offline',
            'source_commits': ['6a72f90', '8921b52'],
            'add_only': True,
        },
        'engines': [
            {'name': 'S', 'path': '/verif/smt', 'serves_properties': sorted(k for k, c in CHECKS.items() if 'S' in c.get('engine', 'S')),
             'kind_free_text': 'real stage run by /verif/driver on an enumerated program family; for-all-values obligations decided by z3 (SMT translation validation)'},
            {'name': 'K', 'path': '/verif/kani', 'serves_properties': sorted(k for k, c in CHECKS.items() if 'K' in c.get('engine', 'S')) + ['C01', 'C07', 'C13', 'C14'],
             'kind_free_text': 'Kani/CBMC proof harnesses compiled inside the crate (cfg(kani) include points) over the real scalar kernels'},
        ],
        'checks': checks,
        'not_applicable': na,
        'notes': 'Solver-based checking only. Exit codes: 0 held, 1 violation (confirmed by replay against the real code), 2 inconclusive / machinery fault. Known findings: /verif/known_findings.txt.',
    }
    json.dump(m, open(os.path.join(V, 'MANIFEST.json'), 'w'), indent=1)
    print('wrote MANIFEST.json with', len(checks), 'checks')

if __name__ == '__main__':
    main()
