#!/bin/bash
# runs every registered quick check on the current /repo tree; prints one line per check
cd /verif
ids=$(python3 -c "import json; print(' '.join(c['property_id'] for c in json.load(open('MANIFEST.json'))['checks']))")
for id in ${@:-$ids}; do
  s=$(date +%s); out=$(./check $id quick 2>&1); rc=$?
  echo "$id rc=$rc $(( $(date +%s) - s ))s violations=$(echo "$out" | grep -c '^VIOLATION') known=$(echo "$out" | grep -c '^KNOWN-FINDING') $(echo "$out" | grep -m1 '^INCONCLUSIVE' | cut -c1-150)"
done
