#!/bin/bash
# every stored seeded change against the check(s) recorded as catching it (quick tier): prints one line per seed
cd /verif
export VERIF_NO_KANI=${VERIF_NO_KANI-1}
for d in seeded/*/; do
  n=$(basename $d)
  ids=$(python3 -c "import json;print(' '.join(json.load(open('$d/meta.json')).get('caught_by',[])[:1]))" 2>/dev/null)
  [ -z "$ids" ] && { echo "$n: ($(python3 -c "import json;print(json.load(open('$d/meta.json')).get('status','recorded as not caught'))"))"; continue; }
  [ "$ids" = "C18" ] && export VERIF_NO_KANI= 
  if ! git -C /repo apply --check $(realpath $d/patch.diff) 2>/dev/null; then echo "$n: patch no longer applies"; continue; fi
  r=$(tools/seedtest.sh $d/patch.diff $ids 2>&1 | grep "^==" | cut -c1-60)
  echo "$n: $r"
  export VERIF_NO_KANI=1
done
