#!/bin/bash
# usage: tools/seedtest.sh <patch.diff> <check-id>...   applies the patch to /repo, runs the quick checks, ALWAYS undoes it
set -u
patch="$(realpath "$1")"; shift
cd /verif
if [ -n "$(git -C /repo status --porcelain)" ]; then echo "repo not clean"; exit 3; fi
git -C /repo apply "$patch" || { echo "patch does not apply"; exit 3; }
trap 'git -C /repo checkout -- . ; git -C /repo clean -fdq packages/rooc/src packages/rooc/tests 2>/dev/null' EXIT
for id in "$@"; do
  out=$(./check "$id" quick 2>&1); rc=$?
  nv=$(echo "$out" | grep -c '^VIOLATION')
  echo "== $id rc=$rc violations=$nv $(echo "$out" | grep -m1 '^VIOLATION' | cut -c1-120) $(echo "$out" | grep -m1 '^INCONCLUSIVE' | cut -c1-200)"
done
