#!/bin/bash
# usage: tools/verify_seed.sh <worktree> <name>   confirms a seeded change independently and stores it in /verif/seeded/<name>/
# 1. patch.diff applies to a clean checkout of /repo HEAD  2. full suite passes with it  3. demo fails with it  4. demo passes without it
set -u
wt="$1"; name="$2"; out=/verif/seeded/$name; mkdir -p "$out"
cd "$wt" || exit 3
cp patch.diff "$out/patch.diff"; cp packages/rooc/tests/seeded_demo.rs "$out/seeded_demo.rs" 2>/dev/null || cp seeded_demo.rs "$out/seeded_demo.rs"
[ -f NOTES.md ] && cp NOTES.md "$out/NOTES.agent.md"
git checkout -q -- packages/rooc/src && git apply "$out/patch.diff" || { echo "patch does not apply cleanly"; exit 3; }
cp "$out/seeded_demo.rs" packages/rooc/tests/seeded_demo.rs
cd packages/rooc
export CARGO_NET_OFFLINE=true
suite=$(cargo test --workspace --no-fail-fast --offline 2>&1 | grep -E "^test result|Running" )
fails=$(echo "$suite" | awk '/Running/{cur=$0} /^test result: FAILED/{print cur}' | grep -v seeded_demo | wc -l)
demo_with=$(echo "$suite" | awk '/Running/{cur=$0} /^test result/{ if (cur ~ /seeded_demo/) print $0}')
git apply -R "$out/patch.diff"
demo_without=$(cargo test --offline --test seeded_demo 2>&1 | grep -E "^test result")
git apply "$out/patch.diff"
echo "suite_targets_failing_other_than_demo=$fails"
echo "demo_with_change: $demo_with"
echo "demo_without_change: $demo_without"
ok=0
if [ "$fails" = "0" ] && echo "$demo_with" | grep -q FAILED && echo "$demo_without" | grep -q "test result: ok"; then ok=1; fi
echo "confirmed=$ok"
echo "{\"suite_failing_targets_other_than_demo\": $fails, \"demo_with_change\": \"$demo_with\", \"demo_without_change\": \"$demo_without\", \"confirmed\": $ok}" > "$out/verify.json"
